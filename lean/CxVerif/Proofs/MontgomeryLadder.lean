/-
  Proofs.MontgomeryLadder — the RFC 7748 ladder (`Spec.X25519.ladder`, on `Nat` mod p) computes the
  x-coordinate of the scalar multiple on Curve25519, for EVERY point `Q` of the curve (affine, the
  2-torsion point `(0,0)`, the point at infinity) and EVERY scalar:

      (ladder k u : Fp) = xenc ((k % 2^255) • Q)         whenever  (u : Fp) = xenc Q

  and hence Diffie–Hellman symmetry of the byte-level function
  `x25519 a (x25519Base b) = x25519 b (x25519Base a)` (`x25519_comm`), through the base point `P9`.
  Needs primality of p (instance argument; delivered by Proofs/Prime25519.lean).
-/
import CxVerif.Proofs.MontgomeryXArith
namespace Cx.Proofs.Montgomery
open Cx Cx.Spec
open Cx.Spec.Field25519 (p)
open Cx.Proofs.EdField

/-! ## bytes: decoding a canonical encoding gives the value back -/

theorem leNat_natToLE (n v : Nat) : leNat (natToLE n v) = v % 256 ^ n := by
  induction n generalizing v with
  | zero => simp [natToLE, leNat, Nat.mod_one]
  | succ n ih =>
    simp only [natToLE, leNat, ih]
    have : (UInt8.ofNat (v % 256)).toNat = v % 256 := by simp
    rw [this, Nat.pow_succ, Nat.mul_comm (256 ^ n) 256, Nat.mod_mul]

/-- `decodeUCoordinate (encode v) = v mod p`: outputs are canonical, bit 255 is clear -/
theorem decode_encode (v : Nat) : X25519.decodeUCoordinate (Field25519.encode v) = v % p := by
  unfold X25519.decodeUCoordinate Field25519.decode Field25519.encode
  rw [leNat_natToLE]
  have h : v % p < p := Nat.mod_lt _ p_pos
  have hp : p < 2 ^ 255 := by decide
  have e : (256 : Nat) ^ 32 = 2 ^ 256 := by decide
  rw [e, Nat.mod_eq_of_lt (a := v % p) (by omega), Nat.mod_eq_of_lt (a := v % p) (by omega),
    Nat.mod_mod]

theorem decode_basePoint : X25519.decodeUCoordinate X25519.basePoint = 9 := by decide

theorem range_succ_reverse (k : Nat) : (List.range (k + 1)).reverse = k :: (List.range k).reverse := by
  rw [List.range_succ, List.reverse_append]; rfl

/-- the RFC 7748 formulas of one iteration on the (already swapped) registers -/
def arith (x1 x2 z2 x3 z3 : Nat) : Nat × Nat × Nat × Nat :=
  let A := Field25519.add x2 z2
  let AA := Field25519.sq A
  let B := Field25519.sub x2 z2
  let BB := Field25519.sq B
  let E := Field25519.sub AA BB
  let C := Field25519.add x3 z3
  let D := Field25519.sub x3 z3
  let DA := Field25519.mul D A
  let CB := Field25519.mul C B
  (Field25519.mul AA BB, Field25519.mul E (Field25519.add AA (Field25519.mul X25519.a24 E)),
   Field25519.sq (Field25519.add DA CB), Field25519.mul x1 (Field25519.sq (Field25519.sub DA CB)))

/-- `step` = bit, swap decision, `arith` on the swapped registers -/
theorem step_eq (k x1 : Nat) (s : X25519.State) (t : Nat) :
    X25519.step k x1 s t =
      (if (s.swap + k / 2 ^ t % 2) % 2 = 1 then
        let r := arith x1 s.x3 s.z3 s.x2 s.z2
        ⟨r.1, r.2.1, r.2.2.1, r.2.2.2, k / 2 ^ t % 2⟩
      else
        let r := arith x1 s.x2 s.z2 s.x3 s.z3
        ⟨r.1, r.2.1, r.2.2.1, r.2.2.2, k / 2 ^ t % 2⟩) := by
  simp only [X25519.step, X25519.cswap, arith]
  split <;> rfl

/-- the four outputs of `arith`, in `Fp` -/
theorem arith_cast (x1 x2 z2 x3 z3 : Nat) :
    let X2 : Fp := x2; let Z2 : Fp := z2; let X3 : Fp := x3; let Z3 : Fp := z3
    let r := arith x1 x2 z2 x3 z3
    (r.1 : Fp) = (X2 ^ 2 - Z2 ^ 2) ^ 2 ∧
    (r.2.1 : Fp) = 4 * X2 * Z2 * (X2 ^ 2 + (A : Fp) * X2 * Z2 + Z2 ^ 2) ∧
    (r.2.2.1 : Fp) = 4 * (X2 * X3 - Z2 * Z3) ^ 2 ∧
    (r.2.2.2 : Fp) = 4 * (x1 : Fp) * (X3 * Z2 - X2 * Z3) ^ 2 := by
  have hA : ((A : Nat) : Fp) = 4 * ((X25519.a24 : Nat) : Fp) + 2 := by
    rw [← a24_eq]; push_cast; ring
  simp only [arith, cast_mul, cast_sq, cast_add, cast_sub, hA]
  refine ⟨by ring, by ring, by ring, by ring⟩

section prime
variable [hp : Fact (Nat.Prime p)]

/-! ## the case `u = 0` (the point at infinity or the 2-torsion point `(0,0)`): the ladder returns 0 -/

/-- invariant when `x₁ = 0`: both pairs are degenerate (`X·Z = 0`) -/
def Inv0 (s : X25519.State) : Prop :=
  (s.x2 : Fp) * (s.z2 : Fp) = 0 ∧ (s.x3 : Fp) * (s.z3 : Fp) = 0

theorem arith_inv0 (x1 x2 z2 x3 z3 : Nat) (h1 : (x1 : Fp) = 0) (h2 : (x2 : Fp) * (z2 : Fp) = 0) :
    let r := arith x1 x2 z2 x3 z3
    (r.1 : Fp) * (r.2.1 : Fp) = 0 ∧ (r.2.2.1 : Fp) * (r.2.2.2 : Fp) = 0 := by
  obtain ⟨_, e2, _, e4⟩ := arith_cast x1 x2 z2 x3 z3
  simp only [] at e2 e4 ⊢
  rw [e2, e4, h1]
  constructor
  · linear_combination (4 * ((arith x1 x2 z2 x3 z3).1 : Fp) *
      ((x2 : Fp) ^ 2 + (A : Fp) * x2 * z2 + (z2 : Fp) ^ 2)) * h2
  · ring

theorem step_inv0 (k x1 : Nat) (h1 : (x1 : Fp) = 0) (s : X25519.State) (t : Nat) (h : Inv0 s) :
    Inv0 (X25519.step k x1 s t) := by
  rw [step_eq]
  obtain ⟨ha, hb⟩ := h
  split
  · exact arith_inv0 x1 s.x3 s.z3 s.x2 s.z2 h1 hb
  · exact arith_inv0 x1 s.x2 s.z2 s.x3 s.z3 h1 ha

theorem loop_inv0 (k x1 : Nat) (h1 : (x1 : Fp) = 0) :
    ∀ (j : Nat) (s : X25519.State), Inv0 s →
      Inv0 ((List.range j).reverse.foldl (X25519.step k x1) s) := by
  intro j
  induction j with
  | zero => intro s h; exact h
  | succ j ih =>
    intro s h
    rw [range_succ_reverse, List.foldl_cons]
    exact ih _ (step_inv0 k x1 h1 s j h)

theorem mul_pow_eq_zero {x z : Fp} (h : x * z = 0) : x * z ^ (p - 2) = 0 := by
  rcases mul_eq_zero.mp h with h | h
  · rw [h, zero_mul]
  · rw [h, zero_pow (by decide), mul_zero]

theorem ladder_zero (k u : Nat) (hu : (u : Fp) = 0) : ((X25519.ladder k u : Nat) : Fp) = 0 := by
  have h0 : Inv0 ⟨1, 0, u, 1, 0⟩ := by
    constructor
    · simp
    · simp [hu]
  have h := loop_inv0 k u hu 255 _ h0
  unfold X25519.ladder
  simp only []
  rw [← X25519.ladderState] at h
  obtain ⟨ha, hb⟩ := h
  simp only [X25519.cswap]
  split
  · rw [cast_mul, cast_pow]; exact mul_pow_eq_zero hb
  · rw [cast_mul, cast_pow]; exact mul_pow_eq_zero ha

/-- multiples of a point with `xenc Q = 0` (infinity, `(0,0)`) have `xenc = 0` -/
theorem xenc_nsmul_of_xenc_eq_zero {Q : Pt} (h : xenc Q = 0) (n : Nat) : xenc (n • Q) = 0 := by
  by_cases hQ : Q = 0
  · rw [hQ, nsmul_zero]; rfl
  · have h2 : Q + Q = 0 := by
      rcases dbl_x hQ with ⟨_, h0⟩ | ⟨hg, _, _⟩
      · exact h0
      · exact absurd (by rw [h, g]; ring) hg
    have h2' : (2 : Nat) • Q = 0 := by rw [two_nsmul]; exact h2
    have : n • Q = (n % 2) • Q := by
      conv_lhs => rw [← Nat.div_add_mod n 2, add_nsmul, mul_nsmul, h2', nsmul_zero, zero_add]
    rw [this]
    rcases Nat.mod_two_eq_zero_or_one n with e | e <;> rw [e]
    · rw [zero_nsmul]; rfl
    · rw [one_nsmul]; exact h

/-! ## the generic case `x₁ ≠ 0`: the ladder invariant -/

/-- after the bits above position `t`: `m = k >> t`; the registers (as selected by the pending swap)
    represent `[m]Q` and `[m+1]Q` -/
def Inv (Q : Pt) (m : Nat) (s : X25519.State) : Prop :=
  (s.swap = 0 ∧ Rep (s.x2 : Fp) (s.z2 : Fp) (m • Q) ∧ Rep (s.x3 : Fp) (s.z3 : Fp) ((m + 1) • Q)) ∨
  (s.swap = 1 ∧ Rep (s.x3 : Fp) (s.z3 : Fp) (m • Q) ∧ Rep (s.x2 : Fp) (s.z2 : Fp) ((m + 1) • Q))

theorem Rep.congr {X Z X' Z' : Fp} {P P' : Pt} (h : Rep X Z P) (hX : X' = X) (hZ : Z' = Z)
    (hP : P' = P) : Rep X' Z' P' := by subst hX hZ hP; exact h

/-- one `arith` on registers representing `P`, `P'` whose difference `P' − P` is an affine point with
    x-coordinate `x₁ ≠ 0`: the outputs represent `2P` and `P + P'` -/
theorem arith_rep (x1 x2 z2 x3 z3 : Nat) {P P' D : Pt}
    (h2 : Rep (x2 : Fp) (z2 : Fp) P) (h3 : Rep (x3 : Fp) (z3 : Fp) P')
    (hD : P' - P = D) (hD0 : D ≠ 0) (hx : xenc D = (x1 : Fp)) (hx1 : (x1 : Fp) ≠ 0) :
    let r := arith x1 x2 z2 x3 z3
    Rep (r.1 : Fp) (r.2.1 : Fp) (P + P) ∧ Rep (r.2.2.1 : Fp) (r.2.2.2 : Fp) (P + P') := by
  obtain ⟨e1, e2, e3, e4⟩ := arith_cast x1 x2 z2 x3 z3
  exact ⟨(xdbl h2).congr e1 e2 rfl, (xadd h2 h3 hD hD0 hx hx1).congr e3 e4 rfl⟩

theorem step_inv (k x1 : Nat) {Q : Pt} (hQ : Q ≠ 0) (hx : xenc Q = (x1 : Fp)) (hx1 : (x1 : Fp) ≠ 0)
    (s : X25519.State) (t m : Nat) (h : Inv Q m s) :
    Inv Q (2 * m + k / 2 ^ t % 2) (X25519.step k x1 s t) := by
  rw [step_eq]
  have hnQ : -Q ≠ 0 := neg_ne_zero.mpr hQ
  have hxn : xenc (-Q) = (x1 : Fp) := by rw [xenc_neg]; exact hx
  have d1 : (m + 1) • Q - m • Q = Q := by rw [add_nsmul, one_nsmul]; abel
  have d2 : m • Q - (m + 1) • Q = -Q := by rw [add_nsmul, one_nsmul]; abel
  have s0 : m • Q + m • Q = (2 * m) • Q := by rw [two_mul, add_nsmul]
  have s1 : m • Q + (m + 1) • Q = (2 * m + 1) • Q := by
    rw [← add_nsmul]; congr 1; omega
  have s1' : (m + 1) • Q + m • Q = (2 * m + 1) • Q := by
    rw [← add_nsmul]; congr 1; omega
  have s2 : (m + 1) • Q + (m + 1) • Q = (2 * m + 1 + 1) • Q := by
    rw [← add_nsmul]; congr 1; omega
  rcases Nat.mod_two_eq_zero_or_one (k / 2 ^ t) with hb | hb <;> rw [hb] <;>
    rcases h with ⟨hs, ha, hb'⟩ | ⟨hs, ha, hb'⟩ <;> rw [hs]
  · -- bit 0, no pending swap: registers (m, m+1)
    simp only [show (0 + 0) % 2 = 1 ↔ False by decide, if_false, Nat.add_zero]
    obtain ⟨r1, r2⟩ := arith_rep x1 s.x2 s.z2 s.x3 s.z3 ha hb' d1 hQ hx hx1
    exact Or.inl ⟨rfl, r1.congr rfl rfl s0.symm, r2.congr rfl rfl s1.symm⟩
  · -- bit 0, pending swap: swap back, registers (m, m+1)
    simp only [if_true, Nat.add_zero]
    obtain ⟨r1, r2⟩ := arith_rep x1 s.x3 s.z3 s.x2 s.z2 ha hb' d1 hQ hx hx1
    exact Or.inl ⟨rfl, r1.congr rfl rfl s0.symm, r2.congr rfl rfl s1.symm⟩
  · -- bit 1, no pending swap: swap, registers (m+1, m)
    simp only [if_true]
    obtain ⟨r1, r2⟩ := arith_rep x1 s.x3 s.z3 s.x2 s.z2 hb' ha d2 hnQ hxn hx1
    exact Or.inr ⟨rfl, r2.congr rfl rfl s1'.symm, r1.congr rfl rfl s2.symm⟩
  · -- bit 1, pending swap: registers already (m+1, m)
    simp only [show (1 + 1) % 2 = 1 ↔ False by decide, if_false]
    obtain ⟨r1, r2⟩ := arith_rep x1 s.x2 s.z2 s.x3 s.z3 hb' ha d2 hnQ hxn hx1
    exact Or.inr ⟨rfl, r2.congr rfl rfl s1'.symm, r1.congr rfl rfl s2.symm⟩

theorem loop_inv (k x1 : Nat) {Q : Pt} (hQ : Q ≠ 0) (hx : xenc Q = (x1 : Fp)) (hx1 : (x1 : Fp) ≠ 0) :
    ∀ (j : Nat) (s : X25519.State) (m : Nat), Inv Q m s →
      Inv Q (m * 2 ^ j + k % 2 ^ j) ((List.range j).reverse.foldl (X25519.step k x1) s) := by
  intro j
  induction j with
  | zero => intro s m h; simpa [Nat.mod_one] using h
  | succ j ih =>
    intro s m h
    rw [range_succ_reverse, List.foldl_cons]
    have h' := ih _ _ (step_inv k x1 hQ hx hx1 s j m h)
    have e : (2 * m + k / 2 ^ j % 2) * 2 ^ j + k % 2 ^ j = m * 2 ^ (j + 1) + k % 2 ^ (j + 1) := by
      rw [Nat.mod_pow_succ, Nat.pow_succ]; ring
    rw [e] at h'; exact h'

/-- **the ladder computes scalar multiplication** on x-coordinates, for every point of the curve and
    every scalar (only bits 0..254 of `k` are read) -/
theorem ladder_eq (Q : Pt) (k u : Nat) (hu : (u : Fp) = xenc Q) :
    ((X25519.ladder k u : Nat) : Fp) = xenc ((k % 2 ^ 255) • Q) := by
  by_cases h0 : xenc Q = 0
  · rw [xenc_nsmul_of_xenc_eq_zero h0, ladder_zero k u (by rw [hu, h0])]
  · have hQ : Q ≠ 0 := by rintro rfl; exact h0 rfl
    have hx1 : (u : Fp) ≠ 0 := by rw [hu]; exact h0
    have hI : Inv Q 0 ⟨1, 0, u, 1, 0⟩ := by
      refine Or.inl ⟨rfl, ?_, ?_⟩
      · simp only [Nat.cast_one, Nat.cast_zero, zero_nsmul]; exact Rep.zero
      · simp only [Nat.cast_one, Nat.zero_add, one_nsmul]; rw [hu]; exact Rep.affine hQ
    have h := loop_inv k u hQ hu.symm hx1 255 _ 0 hI
    rw [Nat.zero_mul, Nat.zero_add, ← X25519.ladderState] at h
    unfold X25519.ladder
    simp only [X25519.cswap]
    rcases h with ⟨hs, ha, _⟩ | ⟨hs, ha, _⟩ <;> rw [hs]
    · simp only [show (0 : Nat) = 1 ↔ False by decide, if_false]
      rw [cast_mul, cast_pow]; exact ha.out
    · simp only [if_true]
      rw [cast_mul, cast_pow]; exact ha.out

/-! ## Diffie–Hellman symmetry -/

omit hp in
theorem ladder_lt (k u : Nat) : X25519.ladder k u < p := by
  unfold X25519.ladder; exact mul_lt _ _

/-- `X25519(k, 9)` is the encoded x-coordinate of `[k']P9` -/
theorem ladder_base (k : Nat) : ((X25519.ladder k 9 : Nat) : Fp) = xenc ((k % 2 ^ 255) • P9) :=
  ladder_eq P9 k 9 (by rw [xenc_P9]; norm_num)

/-- the two-stage function on naturals -/
theorem ladder_ladder (a b : Nat) :
    ((X25519.ladder a (X25519.ladder b 9) : Nat) : Fp)
      = xenc (((a % 2 ^ 255) * (b % 2 ^ 255)) • P9) := by
  rw [ladder_eq ((b % 2 ^ 255) • P9) a _ (ladder_base b), mul_nsmul']

/-- **Diffie–Hellman symmetry of X25519** (RFC 7748 §6.1): both parties derive the same secret,
    for ALL byte strings `a`, `b` as private keys -/
theorem x25519_comm (a b : Bytes) :
    X25519.x25519 a (X25519.x25519Base b) = X25519.x25519 b (X25519.x25519Base a) := by
  unfold X25519.x25519Base X25519.x25519
  rw [decode_encode, decode_encode, decode_basePoint,
    Nat.mod_eq_of_lt (ladder_lt _ _), Nat.mod_eq_of_lt (ladder_lt _ _)]
  congr 1
  rw [← cast_inj (ladder_lt _ _) (ladder_lt _ _), ladder_ladder, ladder_ladder, Nat.mul_comm]

end prime
end Cx.Proofs.Montgomery
