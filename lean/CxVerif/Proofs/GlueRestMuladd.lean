/-
  Proofs.GlueRestMuladd — the tie of `scalar32::muladd` (sc_muladd, 32-bit backend), translated in three stages by
  tools/ktx_misc.py (kernel specs tools/kernels/glue_rest.py: `muladd_cols_src`, `muladd_carry_src`, `muladd_tail_src`, composed into
  `muladd_src`), to the hand model `Impl.Scalar32.muladd`.  The model is ONE straight-line program; `colsM` / `carriesM` are its first
  two parts copied verbatim, `muladd_limbs_stages` proves the model equal to their composition with `reduce_limbs` (which is literally
  its tail), and each generated stage is walked against its part (`bind_walk`, Proofs/BindWalk.lean): no single proof term is deep.
-/
import CxVerif.Extracted.GlueRest
import CxVerif.Proofs.BindWalk
import CxVerif.Proofs.KeccakTactic
namespace Cx.Proofs.GlueRestMuladd
open Cx Cx.Impl.Scalar32 Cx.Extracted.GlueRest.Scalar32Muladd
open Cx.Impl.Fe32 (ck64 add64 sub64 mul64 shl64 shr u8of u8or)
open Cx.Proofs.Keccak

abbrev T24 := Int × Int × Int × Int × Int × Int × Int × Int × Int × Int × Int × Int × Int × Int × Int × Int × Int × Int × Int × Int × Int × Int × Int × Int

/-- the column sums of `Impl.Scalar32.muladd_limbs` (its first 23 statements and `s23 = 0`), verbatim -/
def colsM (a0 a1 a2 a3 a4 a5 a6 a7 a8 a9 a10 a11 b0 b1 b2 b3 b4 b5 b6 b7 b8 b9 b10 b11
    c0 c1 c2 c3 c4 c5 c6 c7 c8 c9 c10 c11 : Int) : Option T24 := do
  let s0 ← sum64o [some c0, mul64 a0 b0]
  let s1 ← sum64o [some c1, mul64 a0 b1, mul64 a1 b0]
  let s2 ← sum64o [some c2, mul64 a0 b2, mul64 a1 b1, mul64 a2 b0]
  let s3 ← sum64o [some c3, mul64 a0 b3, mul64 a1 b2, mul64 a2 b1, mul64 a3 b0]
  let s4 ← sum64o [some c4, mul64 a0 b4, mul64 a1 b3, mul64 a2 b2, mul64 a3 b1, mul64 a4 b0]
  let s5 ← sum64o [some c5, mul64 a0 b5, mul64 a1 b4, mul64 a2 b3, mul64 a3 b2, mul64 a4 b1, mul64 a5 b0]
  let s6 ← sum64o [some c6, mul64 a0 b6, mul64 a1 b5, mul64 a2 b4, mul64 a3 b3, mul64 a4 b2, mul64 a5 b1, mul64 a6 b0]
  let s7 ← sum64o [some c7, mul64 a0 b7, mul64 a1 b6, mul64 a2 b5, mul64 a3 b4, mul64 a4 b3, mul64 a5 b2, mul64 a6 b1, mul64 a7 b0]
  let s8 ← sum64o [some c8, mul64 a0 b8, mul64 a1 b7, mul64 a2 b6, mul64 a3 b5, mul64 a4 b4, mul64 a5 b3, mul64 a6 b2, mul64 a7 b1, mul64 a8 b0]
  let s9 ← sum64o [some c9, mul64 a0 b9, mul64 a1 b8, mul64 a2 b7, mul64 a3 b6, mul64 a4 b5, mul64 a5 b4, mul64 a6 b3, mul64 a7 b2, mul64 a8 b1, mul64 a9 b0]
  let s10 ← sum64o [some c10, mul64 a0 b10, mul64 a1 b9, mul64 a2 b8, mul64 a3 b7, mul64 a4 b6, mul64 a5 b5, mul64 a6 b4, mul64 a7 b3, mul64 a8 b2, mul64 a9 b1, mul64 a10 b0]
  let s11 ← sum64o [some c11, mul64 a0 b11, mul64 a1 b10, mul64 a2 b9, mul64 a3 b8, mul64 a4 b7, mul64 a5 b6, mul64 a6 b5, mul64 a7 b4, mul64 a8 b3, mul64 a9 b2, mul64 a10 b1, mul64 a11 b0]
  let s12 ← sum64o [mul64 a1 b11, mul64 a2 b10, mul64 a3 b9, mul64 a4 b8, mul64 a5 b7, mul64 a6 b6, mul64 a7 b5, mul64 a8 b4, mul64 a9 b3, mul64 a10 b2, mul64 a11 b1]
  let s13 ← sum64o [mul64 a2 b11, mul64 a3 b10, mul64 a4 b9, mul64 a5 b8, mul64 a6 b7, mul64 a7 b6, mul64 a8 b5, mul64 a9 b4, mul64 a10 b3, mul64 a11 b2]
  let s14 ← sum64o [mul64 a3 b11, mul64 a4 b10, mul64 a5 b9, mul64 a6 b8, mul64 a7 b7, mul64 a8 b6, mul64 a9 b5, mul64 a10 b4, mul64 a11 b3]
  let s15 ← sum64o [mul64 a4 b11, mul64 a5 b10, mul64 a6 b9, mul64 a7 b8, mul64 a8 b7, mul64 a9 b6, mul64 a10 b5, mul64 a11 b4]
  let s16 ← sum64o [mul64 a5 b11, mul64 a6 b10, mul64 a7 b9, mul64 a8 b8, mul64 a9 b7, mul64 a10 b6, mul64 a11 b5]
  let s17 ← sum64o [mul64 a6 b11, mul64 a7 b10, mul64 a8 b9, mul64 a9 b8, mul64 a10 b7, mul64 a11 b6]
  let s18 ← sum64o [mul64 a7 b11, mul64 a8 b10, mul64 a9 b9, mul64 a10 b8, mul64 a11 b7]
  let s19 ← sum64o [mul64 a8 b11, mul64 a9 b10, mul64 a10 b9, mul64 a11 b8]
  let s20 ← sum64o [mul64 a9 b11, mul64 a10 b10, mul64 a11 b9]
  let s21 ← sum64o [mul64 a10 b11, mul64 a11 b10]
  let s22 ← sum64o [mul64 a11 b11]
  let s23 : Int := 0
  pure (s0, s1, s2, s3, s4, s5, s6, s7, s8, s9, s10, s11, s12, s13, s14, s15, s16, s17, s18, s19, s20, s21, s22, s23)

/-- the two rounds of rounded carries of `muladd_limbs` (its next 23 statements), verbatim -/
def carriesM (s0 s1 s2 s3 s4 s5 s6 s7 s8 s9 s10 s11 s12 s13 s14 s15 s16 s17 s18 s19 s20 s21 s22 s23 : Int) : Option T24 := do
  let (s0, s1) ← carryR s0 s1
  let (s2, s3) ← carryR s2 s3
  let (s4, s5) ← carryR s4 s5
  let (s6, s7) ← carryR s6 s7
  let (s8, s9) ← carryR s8 s9
  let (s10, s11) ← carryR s10 s11
  let (s12, s13) ← carryR s12 s13
  let (s14, s15) ← carryR s14 s15
  let (s16, s17) ← carryR s16 s17
  let (s18, s19) ← carryR s18 s19
  let (s20, s21) ← carryR s20 s21
  let (s22, s23) ← carryR s22 s23
  let (s1, s2) ← carryR s1 s2
  let (s3, s4) ← carryR s3 s4
  let (s5, s6) ← carryR s5 s6
  let (s7, s8) ← carryR s7 s8
  let (s9, s10) ← carryR s9 s10
  let (s11, s12) ← carryR s11 s12
  let (s13, s14) ← carryR s13 s14
  let (s15, s16) ← carryR s15 s16
  let (s17, s18) ← carryR s17 s18
  let (s19, s20) ← carryR s19 s20
  let (s21, s22) ← carryR s21 s22
  pure (s0, s1, s2, s3, s4, s5, s6, s7, s8, s9, s10, s11, s12, s13, s14, s15, s16, s17, s18, s19, s20, s21, s22, s23)

set_option maxRecDepth 100000 in
theorem carry_src_eq (s0 s1 s2 s3 s4 s5 s6 s7 s8 s9 s10 s11 s12 s13 s14 s15 s16 s17 s18 s19 s20 s21 s22 s23 : Int) : muladd_carry_src s0 s1 s2 s3 s4 s5 s6 s7 s8 s9 s10 s11 s12 s13 s14 s15 s16 s17 s18 s19 s20 s21 s22 s23 = carriesM s0 s1 s2 s3 s4 s5 s6 s7 s8 s9 s10 s11 s12 s13 s14 s15 s16 s17 s18 s19 s20 s21 s22 s23 := by
  unfold muladd_carry_src carriesM
  bind_walk [carryR]

set_option maxRecDepth 100000 in
theorem tail_src_eq (s0 s1 s2 s3 s4 s5 s6 s7 s8 s9 s10 s11 s12 s13 s14 s15 s16 s17 s18 s19 s20 s21 s22 s23 : Int) :
    muladd_tail_src s0 s1 s2 s3 s4 s5 s6 s7 s8 s9 s10 s11 s12 s13 s14 s15 s16 s17 s18 s19 s20 s21 s22 s23 = (reduce_limbs s0 s1 s2 s3 s4 s5 s6 s7 s8 s9 s10 s11 s12 s13 s14 s15 s16 s17 s18 s19 s20 s21 s22 s23).bind fun t => some (pack t) := by
  unfold muladd_tail_src
  bind_walk [reduce_limbs, mac, msc, carryR, carryF, pack]

/-- `x + y + z + …` of `sum64o` as the chain of binds it is -/
def sumChain : Int → List (Option Int) → Option Int
  | acc, [] => some acc
  | acc, y :: ys => y.bind fun t => (add64 acc t).bind fun s => sumChain s ys

theorem foldlM_eq_sumChain (xs : List (Option Int)) : ∀ v : Int, xs.foldlM (fun acc y => y.bind (add64 acc)) v = sumChain v xs := by
  induction xs with
  | nil => intro v; rfl
  | cons y ys ih =>
    intro v
    simp only [List.foldlM_cons, sumChain]
    cases y with
    | none => rfl
    | some t =>
      simp only [Option.bind_eq_bind, Option.bind_some]
      cases add64 v t with
      | none => rfl
      | some s => exact ih s

theorem sum64o_cons (x : Option Int) (xs : List (Option Int)) : sum64o (x :: xs) = x.bind fun v => sumChain v xs := by
  cases x with
  | none => rfl
  | some v => exact foldlM_eq_sumChain xs v

set_option maxRecDepth 100000 in
theorem cols_src_eq (a b c : Scalar) :
    muladd_cols_src a b c = colsM ((load_3 a 0) % 2^21) ((shr (load_4 a 2) 5) % 2^21) ((shr (load_3 a 5) 2) % 2^21) ((shr (load_4 a 7) 7) % 2^21) ((shr (load_4 a 10) 4) % 2^21) ((shr (load_3 a 13) 1) % 2^21) ((shr (load_4 a 15) 6) % 2^21) ((shr (load_3 a 18) 3) % 2^21) ((load_3 a 21) % 2^21) ((shr (load_4 a 23) 5) % 2^21) ((shr (load_3 a 26) 2) % 2^21) (shr (load_4 a 28) 7)
      ((load_3 b 0) % 2^21) ((shr (load_4 b 2) 5) % 2^21) ((shr (load_3 b 5) 2) % 2^21) ((shr (load_4 b 7) 7) % 2^21) ((shr (load_4 b 10) 4) % 2^21) ((shr (load_3 b 13) 1) % 2^21) ((shr (load_4 b 15) 6) % 2^21) ((shr (load_3 b 18) 3) % 2^21) ((load_3 b 21) % 2^21) ((shr (load_4 b 23) 5) % 2^21) ((shr (load_3 b 26) 2) % 2^21) (shr (load_4 b 28) 7)
      ((load_3 c 0) % 2^21) ((shr (load_4 c 2) 5) % 2^21) ((shr (load_3 c 5) 2) % 2^21) ((shr (load_4 c 7) 7) % 2^21) ((shr (load_4 c 10) 4) % 2^21) ((shr (load_3 c 13) 1) % 2^21) ((shr (load_4 c 15) 6) % 2^21) ((shr (load_3 c 18) 3) % 2^21) ((load_3 c 21) % 2^21) ((shr (load_4 c 23) 5) % 2^21) ((shr (load_3 c 26) 2) % 2^21) (shr (load_4 c 28) 7) := by
  unfold muladd_cols_src colsM
  simp only [sum64o_cons, sumChain]
  bind_walk []

set_option maxRecDepth 100000 in
/-- the hand model `muladd_limbs` is the composition of its three parts (`reduce_limbs` is literally its tail) -/
theorem muladd_limbs_stages (a0 a1 a2 a3 a4 a5 a6 a7 a8 a9 a10 a11 b0 b1 b2 b3 b4 b5 b6 b7 b8 b9 b10 b11
    c0 c1 c2 c3 c4 c5 c6 c7 c8 c9 c10 c11 : Int) :
    muladd_limbs a0 a1 a2 a3 a4 a5 a6 a7 a8 a9 a10 a11 b0 b1 b2 b3 b4 b5 b6 b7 b8 b9 b10 b11 c0 c1 c2 c3 c4 c5 c6 c7 c8 c9 c10 c11 =
      (colsM a0 a1 a2 a3 a4 a5 a6 a7 a8 a9 a10 a11 b0 b1 b2 b3 b4 b5 b6 b7 b8 b9 b10 b11 c0 c1 c2 c3 c4 c5 c6 c7 c8 c9 c10 c11).bind fun s =>
      (carriesM s.1 s.2.1 s.2.2.1 s.2.2.2.1 s.2.2.2.2.1 s.2.2.2.2.2.1 s.2.2.2.2.2.2.1 s.2.2.2.2.2.2.2.1 s.2.2.2.2.2.2.2.2.1 s.2.2.2.2.2.2.2.2.2.1 s.2.2.2.2.2.2.2.2.2.2.1 s.2.2.2.2.2.2.2.2.2.2.2.1 s.2.2.2.2.2.2.2.2.2.2.2.2.1 s.2.2.2.2.2.2.2.2.2.2.2.2.2.1 s.2.2.2.2.2.2.2.2.2.2.2.2.2.2.1 s.2.2.2.2.2.2.2.2.2.2.2.2.2.2.2.1 s.2.2.2.2.2.2.2.2.2.2.2.2.2.2.2.2.1 s.2.2.2.2.2.2.2.2.2.2.2.2.2.2.2.2.2.1 s.2.2.2.2.2.2.2.2.2.2.2.2.2.2.2.2.2.2.1 s.2.2.2.2.2.2.2.2.2.2.2.2.2.2.2.2.2.2.2.1 s.2.2.2.2.2.2.2.2.2.2.2.2.2.2.2.2.2.2.2.2.1 s.2.2.2.2.2.2.2.2.2.2.2.2.2.2.2.2.2.2.2.2.2.1 s.2.2.2.2.2.2.2.2.2.2.2.2.2.2.2.2.2.2.2.2.2.2.1 s.2.2.2.2.2.2.2.2.2.2.2.2.2.2.2.2.2.2.2.2.2.2.2).bind fun s =>
      reduce_limbs s.1 s.2.1 s.2.2.1 s.2.2.2.1 s.2.2.2.2.1 s.2.2.2.2.2.1 s.2.2.2.2.2.2.1 s.2.2.2.2.2.2.2.1 s.2.2.2.2.2.2.2.2.1 s.2.2.2.2.2.2.2.2.2.1 s.2.2.2.2.2.2.2.2.2.2.1 s.2.2.2.2.2.2.2.2.2.2.2.1 s.2.2.2.2.2.2.2.2.2.2.2.2.1 s.2.2.2.2.2.2.2.2.2.2.2.2.2.1 s.2.2.2.2.2.2.2.2.2.2.2.2.2.2.1 s.2.2.2.2.2.2.2.2.2.2.2.2.2.2.2.1 s.2.2.2.2.2.2.2.2.2.2.2.2.2.2.2.2.1 s.2.2.2.2.2.2.2.2.2.2.2.2.2.2.2.2.2.1 s.2.2.2.2.2.2.2.2.2.2.2.2.2.2.2.2.2.2.1 s.2.2.2.2.2.2.2.2.2.2.2.2.2.2.2.2.2.2.2.1 s.2.2.2.2.2.2.2.2.2.2.2.2.2.2.2.2.2.2.2.2.1 s.2.2.2.2.2.2.2.2.2.2.2.2.2.2.2.2.2.2.2.2.2.1 s.2.2.2.2.2.2.2.2.2.2.2.2.2.2.2.2.2.2.2.2.2.2.1 s.2.2.2.2.2.2.2.2.2.2.2.2.2.2.2.2.2.2.2.2.2.2.2 := by
  unfold muladd_limbs colsM carriesM
  bind_walk [reduce_limbs]

theorem muladd_src_eq (a b c : Scalar) : muladd_src a b c = muladd a b c := by
  unfold muladd_src muladd
  simp only [cols_src_eq, carry_src_eq, tail_src_eq, muladd_limbs_stages, Option.bind_assoc, Option.bind_eq_bind, Option.pure_def]

end Cx.Proofs.GlueRestMuladd
