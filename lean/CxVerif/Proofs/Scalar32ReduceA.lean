/-
  Proofs.Scalar32ReduceA — the single statements of ref10 sc_reduce / sc_muladd as modelled in Impl/Scalar32.lean
  (`mac`, `msc`, `carryR`, `carryF`: every i64 `+ - *` checked), each in continuation form: inside the stated
  bounds the checked statement followed by ANY continuation `f` equals `f` applied to the exact integer result, i.e.
  no i64 overflow and the result is the mathematical one.
    * `s_i += s_j * c` / `s_i -= s_j * c`            (`mac_bind`, `msc_bind`)
    * the six-statement fold of one limb `x` with the literals 666643 470296 654183 −997805 136657 −683901 (`fold6_bind`)
    * `carry = (s + (1<<20)) >> 21; sn += carry; s -= carry << 21`   (`carryR_step`: remainder in [−2^20, 2^20))
    * `carry = s >> 21; sn += carry; s -= carry << 21`               (`carryF_step`: remainder in [0, 2^21))
  The carry itself is existentially quantified with its defining inequality, so that later proofs see only linear facts.
-/
import CxVerif.Proofs.Fe32Basic
import CxVerif.Impl.Scalar32
import CxVerif.Spec.ScalarL
namespace Cx.Proofs.Scalar32
open Cx Cx.Impl.Scalar32
open Cx.Impl.Fe32 (ck64 add64 sub64 mul64 shl64 shr wrap64)
open Cx.Proofs.Fe32 (some_bind pure_eq_some ck64_some add64_bind sub64_bind mul64_bind wrap64_eq)

/-! radix-2^21 limb sums of the lengths that occur in the stage lemmas (weights 2^(21 i) from i = 0) -/
def lin6 (x0 x1 x2 x3 x4 x5 : Int) : Int := x0 + x1 * 2^21 + x2 * 2^42 + x3 * 2^63 + x4 * 2^84 + x5 * 2^105
def lin11 (x0 x1 x2 x3 x4 x5 x6 x7 x8 x9 x10 : Int) : Int :=
  x0 + x1 * 2^21 + x2 * 2^42 + x3 * 2^63 + x4 * 2^84 + x5 * 2^105 + x6 * 2^126 + x7 * 2^147 + x8 * 2^168 + x9 * 2^189
    + x10 * 2^210
def lin12 (x0 x1 x2 x3 x4 x5 x6 x7 x8 x9 x10 x11 : Int) : Int :=
  x0 + x1 * 2^21 + x2 * 2^42 + x3 * 2^63 + x4 * 2^84 + x5 * 2^105 + x6 * 2^126 + x7 * 2^147 + x8 * 2^168 + x9 * 2^189
    + x10 * 2^210 + x11 * 2^231
def lin13 (x0 x1 x2 x3 x4 x5 x6 x7 x8 x9 x10 x11 x12 : Int) : Int :=
  x0 + x1 * 2^21 + x2 * 2^42 + x3 * 2^63 + x4 * 2^84 + x5 * 2^105 + x6 * 2^126 + x7 * 2^147 + x8 * 2^168 + x9 * 2^189
    + x10 * 2^210 + x11 * 2^231 + x12 * 2^252
set_option exponentiation.threshold 600 in
def lin22 (x0 x1 x2 x3 x4 x5 x6 x7 x8 x9 x10 x11 x12 x13 x14 x15 x16 x17 x18 x19 x20 x21 : Int) : Int :=
  x0 + x1 * 2^21 + x2 * 2^42 + x3 * 2^63 + x4 * 2^84 + x5 * 2^105 + x6 * 2^126 + x7 * 2^147 + x8 * 2^168 + x9 * 2^189
    + x10 * 2^210 + x11 * 2^231 + x12 * 2^252 + x13 * 2^273 + x14 * 2^294 + x15 * 2^315 + x16 * 2^336 + x17 * 2^357
    + x18 * 2^378 + x19 * 2^399 + x20 * 2^420 + x21 * 2^441
set_option exponentiation.threshold 600 in
def lin23 (x0 x1 x2 x3 x4 x5 x6 x7 x8 x9 x10 x11 x12 x13 x14 x15 x16 x17 x18 x19 x20 x21 x22 : Int) : Int :=
  x0 + x1 * 2^21 + x2 * 2^42 + x3 * 2^63 + x4 * 2^84 + x5 * 2^105 + x6 * 2^126 + x7 * 2^147 + x8 * 2^168 + x9 * 2^189
    + x10 * 2^210 + x11 * 2^231 + x12 * 2^252 + x13 * 2^273 + x14 * 2^294 + x15 * 2^315 + x16 * 2^336 + x17 * 2^357
    + x18 * 2^378 + x19 * 2^399 + x20 * 2^420 + x21 * 2^441 + x22 * 2^462
set_option exponentiation.threshold 600 in
def lin24 (x0 x1 x2 x3 x4 x5 x6 x7 x8 x9 x10 x11 x12 x13 x14 x15 x16 x17 x18 x19 x20 x21 x22 x23 : Int) : Int :=
  x0 + x1 * 2^21 + x2 * 2^42 + x3 * 2^63 + x4 * 2^84 + x5 * 2^105 + x6 * 2^126 + x7 * 2^147 + x8 * 2^168 + x9 * 2^189
    + x10 * 2^210 + x11 * 2^231 + x12 * 2^252 + x13 * 2^273 + x14 * 2^294 + x15 * 2^315 + x16 * 2^336 + x17 * 2^357
    + x18 * 2^378 + x19 * 2^399 + x20 * 2^420 + x21 * 2^441 + x22 * 2^462 + x23 * 2^483

/-- the integer denoted by twelve limbs in radix 2^21 -/
def val12 (t : S12) : Int := lin12 t.s0 t.s1 t.s2 t.s3 t.s4 t.s5 t.s6 t.s7 t.s8 t.s9 t.s10 t.s11

/-- the group order as an `Int` literal expression (`LI_eq`) -/
def LI : Int := 2^252 + 27742317777372353535851937790883648493
theorem LI_eq : LI = (Spec.ScalarL.L : Int) := by decide

/-- fully carried limbs: eleven 21-bit digits and a top digit that may carry bit 252 -/
def Digits12 (t : S12) : Prop :=
  (0 ≤ t.s0 ∧ t.s0 < 2^21) ∧ (0 ≤ t.s1 ∧ t.s1 < 2^21) ∧ (0 ≤ t.s2 ∧ t.s2 < 2^21) ∧ (0 ≤ t.s3 ∧ t.s3 < 2^21) ∧
  (0 ≤ t.s4 ∧ t.s4 < 2^21) ∧ (0 ≤ t.s5 ∧ t.s5 < 2^21) ∧ (0 ≤ t.s6 ∧ t.s6 < 2^21) ∧ (0 ≤ t.s7 ∧ t.s7 < 2^21) ∧
  (0 ≤ t.s8 ∧ t.s8 < 2^21) ∧ (0 ≤ t.s9 ∧ t.s9 < 2^21) ∧ (0 ≤ t.s10 ∧ t.s10 < 2^21) ∧ (0 ≤ t.s11 ∧ t.s11 < 2^22)

theorem mac_bind {β} (si sj c : Int) (f : Int → Option β) (h1 : -2^63 ≤ sj * c ∧ sj * c < 2^63)
    (h2 : -2^63 ≤ si + sj * c ∧ si + sj * c < 2^63) : (mac si sj c >>= f) = f (si + sj * c) := by
  unfold mac
  rw [bind_assoc, mul64_bind _ _ _ h1, add64_bind _ _ _ h2]

theorem msc_bind {β} (si sj c : Int) (f : Int → Option β) (h1 : -2^63 ≤ sj * c ∧ sj * c < 2^63)
    (h2 : -2^63 ≤ si - sj * c ∧ si - sj * c < 2^63) : (msc si sj c >>= f) = f (si - sj * c) := by
  unfold msc
  rw [bind_assoc, mul64_bind _ _ _ h1, sub64_bind _ _ _ h2]

/-- the six statements `a0 += x*666643; a1 += x*470296; a2 += x*654183; a3 -= x*997805; a4 += x*136657; a5 -= x*683901` -/
theorem fold6_bind {β} (a0 a1 a2 a3 a4 a5 x : Int) (k : Int → Int → Int → Int → Int → Int → Option β)
    (hx : -2^40 ≤ x ∧ x ≤ 2^40)
    (h0 : -2^62 ≤ a0 ∧ a0 ≤ 2^62) (h1 : -2^62 ≤ a1 ∧ a1 ≤ 2^62) (h2 : -2^62 ≤ a2 ∧ a2 ≤ 2^62)
    (h3 : -2^62 ≤ a3 ∧ a3 ≤ 2^62) (h4 : -2^62 ≤ a4 ∧ a4 ≤ 2^62) (h5 : -2^62 ≤ a5 ∧ a5 ≤ 2^62) :
    (do let a0 ← mac a0 x 666643
        let a1 ← mac a1 x 470296
        let a2 ← mac a2 x 654183
        let a3 ← msc a3 x 997805
        let a4 ← mac a4 x 136657
        let a5 ← msc a5 x 683901
        k a0 a1 a2 a3 a4 a5)
      = k (a0 + x * 666643) (a1 + x * 470296) (a2 + x * 654183) (a3 - x * 997805) (a4 + x * 136657) (a5 - x * 683901) := by
  rw [mac_bind _ _ _ _ (by omega) (by omega), mac_bind _ _ _ _ (by omega) (by omega),
    mac_bind _ _ _ _ (by omega) (by omega), msc_bind _ _ _ _ (by omega) (by omega),
    mac_bind _ _ _ _ (by omega) (by omega), msc_bind _ _ _ _ (by omega) (by omega)]

/-- rounded carry: `c = ⌊(s + 2^20) / 2^21⌋`, characterised by `s − c·2^21 ∈ [−2^20, 2^20)` -/
theorem carryR_step (s sn : Int) (hs : -2^62 ≤ s ∧ s ≤ 2^62) (hn : -2^62 ≤ sn ∧ sn ≤ 2^62) :
    ∃ c : Int, (-2^20 ≤ s - c * 2^21 ∧ s - c * 2^21 < 2^20) ∧
      ∀ {β} (f : Int × Int → Option β), (carryR s sn >>= f) = f (s - c * 2^21, sn + c) := by
  refine ⟨(s + 2^20) / 2^21, by omega, fun f => ?_⟩
  unfold carryR
  have hw : shl64 (shr (s + 2^20) 21) 21 = (s + 2^20) / 2^21 * 2^21 := by
    unfold shl64 shr; exact wrap64_eq (by omega)
  rw [bind_assoc, add64_bind _ _ _ (by omega)]
  simp only [shr] at hw ⊢
  rw [bind_assoc, add64_bind _ _ _ (by omega), hw, bind_assoc, sub64_bind _ _ _ (by omega)]
  rfl

/-- floor carry: `c = ⌊s / 2^21⌋`, characterised by `s − c·2^21 ∈ [0, 2^21)` -/
theorem carryF_step (s sn : Int) (hs : -2^62 ≤ s ∧ s ≤ 2^62) (hn : -2^62 ≤ sn ∧ sn ≤ 2^62) :
    ∃ c : Int, (0 ≤ s - c * 2^21 ∧ s - c * 2^21 < 2^21) ∧
      ∀ {β} (f : Int × Int → Option β), (carryF s sn >>= f) = f (s - c * 2^21, sn + c) := by
  refine ⟨s / 2^21, by omega, fun f => ?_⟩
  unfold carryF
  have hw : shl64 (shr s 21) 21 = s / 2^21 * 2^21 := by
    unfold shl64 shr; exact wrap64_eq (by omega)
  simp only [shr] at hw ⊢
  rw [bind_assoc, add64_bind _ _ _ (by omega), hw, bind_assoc, sub64_bind _ _ _ (by omega)]
  rfl

/-! ### the checked column sums of sc_muladd (`sum64o`) -/

theorem mul64_some (a b : Int) (h : -2^63 ≤ a * b ∧ a * b < 2^63) : mul64 a b = some (a * b) := by
  unfold mul64; exact ck64_some h

/-- 0 ≤ x ≤ X, 0 ≤ y ≤ Y ⟹ 0 ≤ x·y ≤ X·Y -/
theorem mul_bnd (x y X Y : Int) (hx : 0 ≤ x ∧ x ≤ X) (hy : 0 ≤ y ∧ y ≤ Y) : 0 ≤ x * y ∧ x * y ≤ X * Y :=
  ⟨Int.mul_nonneg hx.1 hy.1, Int.mul_le_mul hx.2 hy.2 hy.1 (Int.le_trans hx.1 hx.2)⟩

def AllNonneg : List Int → Prop
  | [] => True
  | y :: ys => 0 ≤ y ∧ AllNonneg ys

theorem foldl_add_ge : ∀ (ys : List Int) (acc : Int), AllNonneg ys → acc ≤ ys.foldl (· + ·) acc
  | [], _, _ => Int.le_refl _
  | y :: ys, acc, h => by
    have := foldl_add_ge ys (acc + y) h.2
    have := h.1
    simp only [List.foldl_cons]; omega

theorem foldlM_add64 : ∀ (ys : List Int) (acc : Int), 0 ≤ acc → AllNonneg ys → ys.foldl (· + ·) acc < 2^63 →
    (ys.map some).foldlM (fun acc y => y.bind (add64 acc)) acc = some (ys.foldl (· + ·) acc)
  | [], _, _, _, _ => rfl
  | y :: ys, acc, hacc, hy, ht => by
    have h1 := foldl_add_ge ys (acc + y) hy.2
    have h2 := hy.1
    simp only [List.foldl_cons] at ht
    have e : add64 acc y = some (acc + y) := by unfold add64; exact ck64_some (by omega)
    simp only [List.map_cons, List.foldlM_cons, Option.bind_some, e, List.foldl_cons]
    exact foldlM_add64 ys (acc + y) (by omega) hy.2 ht

/-- `x + y_1 + … + y_n` on i64, all terms non-negative, the total below 2^63: every partial sum is inside i64 -/
theorem sum64o_eval (x : Int) (ys : List Int) (hx : 0 ≤ x) (hy : AllNonneg ys) (ht : ys.foldl (· + ·) x < 2^63) :
    sum64o (some x :: ys.map some) = some (ys.foldl (· + ·) x) := by
  unfold sum64o
  exact foldlM_add64 ys x hx hy ht

end Cx.Proofs.Scalar32
