/-
  Proofs.Field25519Prime — facts that need primality of p = 2^255 − 19, which is NOT proved here:
  it is an explicit hypothesis `Nat.Prime p` of every statement in this file.
-/
import CxVerif.Proofs.Field25519
import Mathlib.FieldTheory.Finite.Basic
namespace Cx.Proofs.Field25519
open Cx Cx.Spec.Field25519

/-- Fermat: under primality of p, `inv z = z^(p−2)` is the multiplicative inverse of every `z ≢ 0` -/
theorem mul_inv_of_prime (hp : Nat.Prime p) (z : Nat) (hz : z % p ≠ 0) : mul z (inv z) = 1 := by
  have hcop : Nat.Coprime z p := by
    rw [Nat.coprime_comm, Nat.Prime.coprime_iff_not_dvd hp]
    intro hd; exact hz (Nat.mod_eq_zero_of_dvd hd)
  have h := Nat.ModEq.pow_totient hcop
  rw [Nat.totient_prime hp] at h
  unfold mul
  rw [inv_eq, Nat.mul_mod, Nat.mod_mod, ← Nat.mul_mod, ← Nat.pow_succ']
  have e : (p - 2).succ = p - 1 := by decide
  rw [e]
  have h1 : 1 % p = 1 := by decide
  rw [← h1]; exact h

end Cx.Proofs.Field25519
