/-
  Proofs.GlueCurve — helper lemmas for the translator tie of the curve layer (Props/C15/GlueTieCurve.lean):
  facts about the AUXILIARY definitions the translator tools/ktx_glue_curve.py generates (join points `<f>_k<n>_src`,
  loop definitions `<f>_loop<n>_src`) and small `Option`-monad normalisation lemmas.
-/
import CxVerif.Extracted.GlueCurve
namespace Cx.Proofs.GlueCurve
open Cx Cx.Impl Cx.Impl.Fe64 Cx.Impl.Ge Cx.Extracted.GlueCurve

/-- `bind` distributes over `if` (used to normalise both sides into the same tree) -/
theorem ite_bind' {α β} (c : Prop) [Decidable c] (a b : Option α) (f : α → Option β) :
    (if c then a else b).bind f = if c then a.bind f else b.bind f := by split <;> rfl

/-! ### ge.rs -/

theorem some_bind' {α β} (a : α) (f : α → Option β) : (some a >>= f) = f a := rfl

/-- the join point of `GeAffine::from_bytes` (sign adjustment + `Some(Self { x, y })`) is the model's local `finish`
    (written as Lean elaborates the model's `do` block) -/
theorem GeAffine.from_bytes_k1 (s : Bytes) (h : s.length = 32) (y X : Fe) :
    GeAffine.from_bytes_k1_src s y X = (do
        let n ← is_negative X
        if (n != ((s[31]'(by omega)) >>> 7 != 0)) = true then do
            let x ← negate_mut X
            pure (some { x := x, y := y })
          else do
            let x ← pure X
            pure (some { x := x, y := y })) := by
  have h31 : s[31]? = some (s[31]'(by omega)) := List.getElem?_eq_getElem (by omega)
  unfold GeAffine.from_bytes_k1_src
  rw [h31]
  generalize is_negative X = o
  generalize negate_mut X = o2
  cases o with
  | none => rfl
  | some n =>
    simp only [Option.bind_eq_bind, Option.bind_some, Option.pure_def]
    generalize (n != (s[31] >>> 7 != 0)) = c
    cases c <;> cases o2 <;> rfl

/-- `GePrecomp::select` on the seventeen digits the `debug_assert!` admits (the `i8`/`u8` bit tricks are evaluated) -/
theorem GePrecomp.select_in (pos : Nat) (b : Int) (h : -8 ≤ b ∧ b ≤ 8) : GePrecomp.select_src pos b = GePrecomp.select pos b := by
  have : b = -8 ∨ b = -7 ∨ b = -6 ∨ b = -5 ∨ b = -4 ∨ b = -3 ∨ b = -2 ∨ b = -1 ∨ b = 0 ∨ b = 1 ∨ b = 2 ∨ b = 3 ∨ b = 4
      ∨ b = 5 ∨ b = 6 ∨ b = 7 ∨ b = 8 := by omega
  rcases this with h | h | h | h | h | h | h | h | h | h | h | h | h | h | h | h | h <;> subst h <;>
    (simp only [GePrecomp.select_src, GePrecomp.select, Option.bind_eq_bind, Option.bind_assoc, Option.pure_def, Option.bind_some]; rfl)

/-! ### lengths of the encodings (unconditional: whenever the function returns at all) -/

theorem bind_some_elim {α β} {o : Option α} {f : α → Option β} {b : β} (h : o >>= f = some b) : ∃ a, o = some a ∧ f a = some b := by
  cases o with
  | none => cases h
  | some a => exact ⟨a, rfl, h⟩
theorem to_packed_length (f : Fe) (w : List Nat) (h : to_packed f = some w) : w.length = 4 := by
  unfold to_packed at h
  repeat (obtain ⟨_, _, h⟩ := bind_some_elim h)
  cases h; rfl
theorem natToLE_len (n v : Nat) : (natToLE n v).length = n := by
  induction n generalizing v with
  | zero => rfl
  | succ n ih => simp [natToLE, ih]
theorem Fe.to_bytes_length (f : Fe) (b : Bytes) (h : Fe64.to_bytes f = some b) : b.length = 32 := by
  unfold Fe64.to_bytes at h
  obtain ⟨w, hw, h⟩ := bind_some_elim h
  cases h
  have := to_packed_length f w hw
  match w, this with
  | [a, b, c, d], _ => simp [List.flatMap, natToLE_len]
theorem GeAffine.to_bytes_length (a : GeAffine) (b : Bytes) (h : GeAffine.to_bytes a = some b) : b.length = 32 := by
  unfold GeAffine.to_bytes at h
  obtain ⟨bs, hbs, h⟩ := bind_some_elim h
  obtain ⟨n, _, h⟩ := bind_some_elim h
  cases h
  simp only [setSign, List.length_modify]
  exact Fe.to_bytes_length _ _ hbs
theorem Ge.to_bytes_length (g : Ge) (b : Bytes) (h : Ge.to_bytes g = some b) : b.length = 32 := by
  unfold Ge.to_bytes at h
  obtain ⟨a, _, h⟩ := bind_some_elim h
  exact GeAffine.to_bytes_length a b h


/-! ### ed25519.rs -/

theorem modify_of_getElem? {α} [Inhabited α] (l : List α) (i : Nat) (f : α → α) (a : α) (h : l[i]? = some a) :
    l.modify i f = l.set i (f a) := by
  rw [List.modify_eq_set, h]; rfl


/-- the statements `signature` and `signature_extended` share after `public_key`, `az`, `nonce` are known, as the source has
    them (buffer `[0; 64]`, two `copy_from_slice`), are the model's `signature_tail` -/
theorem Ed25519.signature_tail_src (message public_key az : Bytes) (nonce : Scalar64.Scalar) :
    (do
      let r ← Ge.scalarmult_base nonce
      let signature := zeros 64
      let tmp6 ← Ge.to_bytes r
      let signature := tmp6 ++ signature.drop 32
      let signature := signature.take 32 ++ public_key
      let tmp7 ← Sha2.Ctx512.update (Sha2.Ctx512.new Sha2.Sha512) signature
      let tmp8 ← Sha2.Ctx512.update tmp7 message
      let hram ← Sha2.Ctx512.finalize Sha2.Sha512 tmp8
      let hram ← Scalar64.reduceFromWideBytes hram
      let tmp11 ← Ed25519.extended_scalar az
      let r ← Scalar64.muladd hram tmp11 nonce
      let tmp13 := Scalar64.to_bytes r
      pure (signature.take 32 ++ tmp13)) = Ed25519.signature_tail message public_key az nonce := by
  unfold Ed25519.signature_tail
  refine bind_congr fun r => ?_
  cases hb : Ge.to_bytes r with
  | none => rfl
  | some rb =>
    have hl := Ge.to_bytes_length r rb hb
    have e1 : (rb ++ List.drop 32 (zeros 64)).take 32 = rb := by
      rw [List.take_append_of_le_length (by omega), List.take_of_length_le (by omega)]
    simp only [some_bind', e1, Ed25519.sha512_2, bind_assoc]


/-- the all-zero test loop of `verify` is the fold of the model -/
theorem Ed25519.verify_loop1 (l : Bytes) (d : UInt8) : Ed25519.verify_loop1_src l d = l.foldl (· ||| ·) d := by
  induction l generalizing d with
  | nil => rfl
  | cons x l ih => simp only [Ed25519.verify_loop1_src, List.foldl_cons, ih]

end Cx.Proofs.GlueCurve
