/-
  Proofs.MacBlake2 — the legacy BLAKE2 wrappers (`Impl.Digest.Blake2`, model of src/blake2b.rs / src/blake2s.rs) as
  `Mac` objects satisfy the object contract of Proofs.MacObj with f = RFC 7693 keyed BLAKE2 under the CURRENT key, in
  the tree as it is (`CodeVariant.repaired`); built on the blake2 unit's one-step simulation `stepC_sim`
  (Proofs/Blake2Hist.lean).  And the defect of the old text (`.current`): reset leaves the unkeyed initial state.
-/
import CxVerif.Impl.Digest
import CxVerif.Proofs.MacObj
import CxVerif.Proofs.Blake2Hist
import CxVerif.Proofs.Blake2Tables
namespace Cx.Proofs.MacBlake2
open Cx Cx.Impl.Digest Cx.Proofs.MacObj Cx.Proofs.Blake2 Cx.Spec.Blake2
open Cx.Impl.Blake2 (Ctx Profile ContextDyn)


section generic
variable {W : Type} [Word W]

/-- the function after `reset_with_key(k)`; keys longer than the RFC's maximum are refused -/
def fkB (P : Params W) (nn : Nat) : Bytes → Option Fn :=
  fun k => if k.length ≤ P.maxKey then some (blake2 P nn k) else none

/-- not computed: the context represents (current key, bytes since reset) -/
def RelB (P : Params W) (nn : Nat) (s : Blake2 W) (f : Fn) (m : Bytes) : Prop :=
  f = blake2 P nn s.key ∧ s.computed = false ∧ s.ctx.outlen = nn ∧ RelA P nn s.ctx.ctx (s.key, m)

/-- computed: `finalize_reset_at` left the unkeyed fresh context; the key is retained in the struct -/
def FinB (P : Params W) (nn : Nat) (s : Blake2 W) (f : Fn) : Prop :=
  f = blake2 P nn s.key ∧ s.computed = true ∧ s.ctx.outlen = nn ∧ s.key.length ≤ P.maxKey ∧
    RelA P nn s.ctx.ctx ([], [])

theorem blake2_length (P : Params W) (g : Good P) (nn : Nat) (hn : nn ≤ P.maxOut) (key m : Bytes) :
    (blake2 P nn key m).length = nn := by
  unfold blake2 output
  simp only [List.length_take, hbytes_length]
  have := g.out_le
  omega

/-- one step of the blake2 unit's simulation, on a single context -/
theorem step1 (P : Params W) (g : Good P) (nn : Nat) (hn : 0 < nn ∧ nn ≤ P.maxOut) (c : Ctx W) (a : AVal)
    (hr : RelA P nn c a) (op : Cx.Proofs.Blake2.Op) :
    Agree P nn (stepC P .wrapping nn (c, []) op) (stepA P nn (a, []) op) :=
  stepC_sim P g nn hn (c, []) (a, []) ⟨hr, trivial⟩ op

theorem upd (P : Params W) (g : Good P) (nn : Nat) (hn : 0 < nn ∧ nn ≤ P.maxOut) (c : Ctx W) (key m b : Bytes)
    (hr : RelA P nn c (key, m)) : ∃ c', Ctx.update_mut P .wrapping c b = some c' ∧ RelA P nn c' (key, m ++ b) := by
  have h := step1 P g nn hn c (key, m) hr (.update_mut b)
  simp only [stepC, stepA] at h
  cases e : Ctx.update_mut P .wrapping c b with
  | none => rw [e] at h; exact absurd h (by simp [Agree])
  | some c' => rw [e] at h; exact ⟨c', rfl, h.2.1⟩

theorem fin (P : Params W) (g : Good P) (nn : Nat) (hn : 0 < nn ∧ nn ≤ P.maxOut) (c : Ctx W) (key m : Bytes)
    (hr : RelA P nn c (key, m)) :
    ∃ c', Ctx.finalize_reset_at P .wrapping c nn nn = some (c', blake2 P nn key m) ∧ RelA P nn c' ([], []) := by
  have h := step1 P g nn hn c (key, m) hr .finalize_reset
  simp only [stepC, stepA] at h
  cases e : Ctx.finalize_reset_at P .wrapping c nn nn with
  | none => rw [e] at h; exact absurd h (by simp [Agree])
  | some x =>
    obtain ⟨c', out⟩ := x
    rw [e] at h
    simp only [Agree, Option.some.injEq] at h
    exact ⟨c', by rw [h.1], h.2.1⟩

theorem rst (P : Params W) (g : Good P) (nn : Nat) (hn : 0 < nn ∧ nn ≤ P.maxOut) (c : Ctx W) (a : AVal)
    (hr : RelA P nn c a) : RelA P nn (Ctx.reset P c nn) ([], []) := by
  have h := step1 P g nn hn c a hr .reset
  simp only [stepC, stepA, Agree] at h
  exact h.2.1

theorem rkey (P : Params W) (g : Good P) (nn : Nat) (hn : 0 < nn ∧ nn ≤ P.maxOut) (c : Ctx W) (a : AVal)
    (hr : RelA P nn c a) (k : Bytes) (hk : k.length ≤ P.maxKey) :
    ∃ c', Ctx.reset_with_key P c nn k = some c' ∧ RelA P nn c' (k, []) := by
  have h := step1 P g nn hn c a hr (.reset_with_key k)
  simp only [stepC, stepA, if_pos hk] at h
  cases e : Ctx.reset_with_key P c nn k with
  | none => rw [e] at h; exact absurd h (by simp [Agree])
  | some c' => rw [e] at h; exact ⟨c', rfl, h.2.1⟩

theorem rkey_bad (P : Params W) (c : Ctx W) (nn : Nat) (k : Bytes) (hk : ¬ k.length ≤ P.maxKey) :
    Ctx.reset_with_key P c nn k = none := by
  simp [Ctx.reset_with_key, hk]

/-- the `Mac` object with the inherent `reset_with_key` as the history machine runs it -/
def famB (v : CodeVariant) (P : Params W) : ObjFam (Blake2 W) :=
  { macFam (blake2Mac v P) with reset_with_key := Blake2.reset_with_key P }

/-- reset from any state whose context is reachable, in the repaired tree -/
theorem reset_ok (P : Params W) (g : Good P) (nn : Nat) (hn : 0 < nn ∧ nn ≤ P.maxOut) (s : Blake2 W) (a : AVal)
    (ho : s.ctx.outlen = nn) (hk : s.key.length ≤ P.maxKey) (hr : RelA P nn s.ctx.ctx a) :
    ∃ s', Blake2.reset .repaired P s = some s' ∧ RelB P nn s' (blake2 P nn s.key) [] := by
  by_cases h0 : s.key.length > 0
  · obtain ⟨c', e, hr'⟩ := rkey P g nn hn s.ctx.ctx a hr s.key hk
    refine ⟨{ s with ctx := { s.ctx with ctx := c' }, computed := false }, ?_, rfl, rfl, ho, hr'⟩
    simp [Blake2.reset, h0, ContextDyn.reset_with_key, ho, e]
  · have hk0 : s.key = [] := List.length_eq_zero_iff.mp (by omega)
    refine ⟨{ s with ctx := { s.ctx with ctx := Ctx.reset P s.ctx.ctx nn }, computed := false }, ?_, rfl, rfl, ho, ?_⟩
    · simp [Blake2.reset, h0, ContextDyn.reset, ho]
    · simpa [hk0] using rst P g nn hn s.ctx.ctx a hr

theorem rekey_ok (P : Params W) (g : Good P) (nn : Nat) (hn : 0 < nn ∧ nn ≤ P.maxOut) (s : Blake2 W) (a : AVal)
    (ho : s.ctx.outlen = nn) (hr : RelA P nn s.ctx.ctx a) (k : Bytes) (f' : Fn) (hf : fkB P nn k = some f') :
    ∃ s', Blake2.reset_with_key P s k = some s' ∧ RelB P nn s' f' [] := by
  unfold fkB at hf
  split at hf
  · rename_i hk
    cases hf
    obtain ⟨c', e, hr'⟩ := rkey P g nn hn s.ctx.ctx a hr k hk
    exact ⟨{ ctx := { s.ctx with ctx := c' }, computed := false, key := k },
      by simp [Blake2.reset_with_key, ContextDyn.reset_with_key, ho, e], rfl, rfl, ho, hr'⟩
  · cases hf

theorem rekey_refused (P : Params W) (s : Blake2 W) (nn : Nat) (k : Bytes) (hf : fkB P nn k = none) :
    Blake2.reset_with_key P s k = none := by
  unfold fkB at hf
  split at hf
  · cases hf
  · rename_i hk
    simp [Blake2.reset_with_key, ContextDyn.reset_with_key, rkey_bad P s.ctx.ctx s.ctx.outlen k hk]

/-- **the contract of the keyed BLAKE2 `Mac` objects in the tree as it is** -/
theorem blake2_contract (P : Params W) (g : Good P) (nn : Nat) (hn : 0 < nn ∧ nn ≤ P.maxOut) :
    Contract (famB .repaired P) nn [nn] (fkB P nn) (fun _ _ => True) (RelB P nn) (FinB P nn) where
  input := by
    rintro s f m b ⟨rfl, hc, ho, hr⟩
    obtain ⟨c', e, hr'⟩ := upd P g nn hn s.ctx.ctx s.key m b hr
    exact ⟨{ s with ctx := { s.ctx with ctx := c' } },
      by simp [famB, macFam, blake2Mac, Blake2.update, hc, ContextDyn.update_mut, blakeProfile, e], rfl, hc, ho, hr'⟩
  raw_result := by
    rintro s f m ⟨rfl, hc, ho, hr⟩ _
    obtain ⟨c', e, hr'⟩ := fin P g nn hn s.ctx.ctx s.key m hr
    exact ⟨{ s with ctx := { s.ctx with ctx := c' }, computed := true },
      by simp [famB, macFam, blake2Mac, Blake2.finalize, hc, ContextDyn.finalize_reset_at, blakeProfile, ho, e],
      rfl, rfl, ho, hr.1, hr'⟩
  raw_bad := by
    rintro s f m n ⟨rfl, hc, ho, hr⟩ _ hne
    simp [famB, macFam, blake2Mac, Blake2.finalize, hc, ContextDyn.finalize_reset_at, Ctx.finalize_reset_at, ho, hne]
  result := by
    rintro s f m ⟨rfl, hc, ho, hr⟩ _
    obtain ⟨c', e, hr'⟩ := fin P g nn hn s.ctx.ctx s.key m hr
    exact ⟨{ s with ctx := { s.ctx with ctx := c' }, computed := true },
      by simp [famB, macFam, blake2Mac, Blake2.finalize, hc, ContextDyn.finalize_reset_at, blakeProfile, ho, e,
        ContextDyn.output_bits],
      rfl, rfl, ho, hr.1, hr'⟩
  reset := by
    rintro s f m ⟨rfl, hc, ho, hr⟩
    exact reset_ok P g nn hn s _ ho hr.1 hr
  reset_fin := by
    rintro s f ⟨rfl, hc, ho, hk, hr⟩
    exact reset_ok P g nn hn s _ ho hk hr
  rekey := by
    rintro s f m k f' ⟨rfl, hc, ho, hr⟩ hf
    exact rekey_ok P g nn hn s _ ho hr k f' hf
  rekey_fin := by
    rintro s f k f' ⟨rfl, hc, ho, hk, hr⟩ hf
    exact rekey_ok P g nn hn s _ ho hr k f' hf
  rekey_bad := by
    rintro s f m k _ hf
    exact rekey_refused P s nn k hf
  rekey_bad_fin := by
    rintro s f k _ hf
    exact rekey_refused P s nn k hf
  fin_input := by
    rintro s f b ⟨rfl, hc, _⟩
    simp [famB, macFam, blake2Mac, Blake2.update, hc]
  fin_result := by
    rintro s f ⟨rfl, hc, _⟩
    simp [famB, macFam, blake2Mac, Blake2.finalize, hc]
  fin_raw := by
    rintro s f n ⟨rfl, hc, _⟩
    simp [famB, macFam, blake2Mac, Blake2.finalize, hc]
  out_rel := by
    rintro s f m ⟨rfl, _, ho, _⟩
    simp [famB, macFam, blake2Mac, ContextDyn.output_bits, ho]
  out_fin := by
    rintro s f ⟨rfl, _, ho, _⟩
    simp [famB, macFam, blake2Mac, ContextDyn.output_bits, ho]
  sizes_rel := by
    rintro s f m ⟨rfl, _, ho, _⟩
    simp [famB, macFam, blake2Mac, ContextDyn.output_bits, ho]
  sizes_fin := by
    rintro s f ⟨rfl, _, ho, _⟩
    simp [famB, macFam, blake2Mac, ContextDyn.output_bits, ho]
  len := by
    rintro s f m ⟨rfl, _, _, _⟩ _
    exact blake2_length P g nn hn.2 _ _

/-- the constructor `new_keyed(outlen, key)` (with the wrapper's own `assert!(key.len() <= keyAssert)`) -/
theorem new_keyed_rel (P : Params W) (g : Good P) (nn : Nat) (hn : 0 < nn ∧ nn ≤ P.maxOut) (key : Bytes)
    (hk : key.length ≤ P.maxKey) (keyAssert : Nat) (hka : key.length ≤ keyAssert) :
    ∃ o, Blake2.new_keyed P keyAssert nn key = some o ∧ RelB P nn o (blake2 P nn key) [] := by
  refine ⟨{ ctx := { ctx := newState P nn key, outlen := nn }, computed := false, key := key }, ?_, rfl, rfl, rfl,
    newState_relA P g nn hn.2 key hk⟩
  simp [Blake2.new_keyed, hka, ContextDyn.new_keyed, new_keyed_eq P nn key hn hk]

/-- guard-free: BLAKE2 results have no domain restriction in the wrapping profile -/
theorem guard_trivial {sizes : List Nat} {fk : Bytes → Option Fn} : ∀ (ops : List Impl.Digest.Op) (a : Spec.MacObj.Abs)
    (st : List Spec.MacObj.Abs), Guard sizes fk (fun _ _ => True) ops a st := by
  intro ops
  induction ops with
  | nil => intros; trivial
  | cons op ops ih =>
    intro a st
    cases op with
    | input b =>
      simp only [Guard]
      split
      · trivial
      · exact ih _ _
    | result =>
      simp only [Guard]
      refine ⟨fun _ => trivial, ?_⟩
      split
      · trivial
      · exact ih _ _
    | rawResult n =>
      simp only [Guard]
      refine ⟨fun _ => trivial, ?_⟩
      split
      · trivial
      · exact ih _ _
    | reset => exact ih _ _
    | resetWithKey k =>
      simp only [Guard]
      split
      · trivial
      · exact ih _ _
    | clone => exact ih _ _
    | swap =>
      cases st with
      | nil => exact ih _ _
      | cons t st => exact ih _ _
    | sizes => exact ih _ _

theorem hist_generic (P : Params W) (g : Good P) (nn : Nat) (hn : 0 < nn ∧ nn ≤ P.maxOut) (key : Bytes)
    (hk : key.length ≤ P.maxKey) (keyAssert : Nat) (hka : key.length ≤ keyAssert) (ops : List Impl.Digest.Op) :
    ∃ o, Blake2.new_keyed P keyAssert nn key = some o ∧
      runHist (famB .repaired P) ops o [] []
        = runHist (absFam [nn] (fkB P nn)) ops (Spec.MacObj.fresh (blake2 P nn key) nn) [] [] := by
  obtain ⟨o, e, hr⟩ := new_keyed_rel P g nn hn key hk keyAssert hka
  exact ⟨o, e, runHist_fresh (blake2_contract P g nn hn) o _ hr ops (guard_trivial ops _ _)⟩

/-- the OLD `reset` (`.current`): from a keyed object it produces the context of the unkeyed constructor -/
theorem current_reset_generic (P : Params W) (g : Good P) (nn : Nat) (hn : 0 < nn ∧ nn ≤ P.maxOut) (key : Bytes)
    (hk : key.length ≤ P.maxKey) (keyAssert : Nat) (hka : key.length ≤ keyAssert) :
    ∃ o o' u, Blake2.new_keyed P keyAssert nn key = some o ∧ Blake2.reset .current P o = some o' ∧
      Blake2.new P nn = some u ∧ o'.ctx = u.ctx ∧ o'.computed = u.computed := by
  have hinv : Inv P (newState P nn key) := (newState_relA P g nn hn.2 key hk).2.1
  refine ⟨{ ctx := { ctx := newState P nn key, outlen := nn }, computed := false, key := key },
    { ctx := { ctx := newState P nn [], outlen := nn }, computed := false, key := key },
    { ctx := { ctx := newState P nn [], outlen := nn }, computed := false, key := [] }, ?_, ?_, ?_, rfl, rfl⟩
  · simp [Blake2.new_keyed, hka, ContextDyn.new_keyed, new_keyed_eq P nn key hn hk]
  · simp [Blake2.reset, ContextDyn.reset, reset_eq P _ hinv nn]
  · have : ¬ ¬ (nn > 0 ∧ nn ≤ P.maxOut) := not_not_intro hn
    simp [Blake2.new, ContextDyn.new, ContextDyn.new_keyed, new_keyed_eq P nn [] hn (Nat.zero_le _), hn.1, hn.2]

end generic

theorem bKeyAssert_eq : bKeyAssert = 64 := by decide
theorem sKeyAssert_eq : sKeyAssert = 64 := by decide

theorem blake2b_hist (outlen : Nat) (key : Bytes) (ho : 0 < outlen ∧ outlen ≤ 64) (hk : key.length ≤ 64)
    (ops : List Impl.Digest.Op) :
    ∃ o, Blake2.new_keyed Impl.Blake2.b bKeyAssert outlen key = some o ∧
      runHist { macFam (blake2bMac .repaired) with reset_with_key := Blake2.reset_with_key Impl.Blake2.b } ops o [] []
        = runHist (absFam [outlen] (fkB Spec.Blake2.b outlen)) ops
            (Spec.MacObj.fresh (Spec.Blake2.blake2 Spec.Blake2.b outlen key) outlen) [] [] := by
  have := hist_generic Spec.Blake2.b good_b outlen ho key hk bKeyAssert (by rw [bKeyAssert_eq]; exact hk) ops
  simpa [famB, blake2bMac, impl_b_eq_spec_b] using this

theorem blake2s_hist (outlen : Nat) (key : Bytes) (ho : 0 < outlen ∧ outlen ≤ 32) (hk : key.length ≤ 32)
    (ops : List Impl.Digest.Op) :
    ∃ o, Blake2.new_keyed Impl.Blake2.s sKeyAssert outlen key = some o ∧
      runHist { macFam (blake2sMac .repaired) with reset_with_key := Blake2.reset_with_key Impl.Blake2.s } ops o [] []
        = runHist (absFam [outlen] (fkB Spec.Blake2.s outlen)) ops
            (Spec.MacObj.fresh (Spec.Blake2.blake2 Spec.Blake2.s outlen key) outlen) [] [] := by
  have := hist_generic Spec.Blake2.s good_s outlen ho key hk sKeyAssert (by rw [sKeyAssert_eq]; omega) ops
  simpa [famB, blake2sMac, impl_s_eq_spec_s] using this

theorem current_reset_drops_key (outlen : Nat) (key : Bytes) (ho : 0 < outlen ∧ outlen ≤ 64) (hk : key.length ≤ 64) :
    ∃ o o' u, Blake2.new_keyed Impl.Blake2.b bKeyAssert outlen key = some o ∧
      Blake2.reset .current Impl.Blake2.b o = some o' ∧ Blake2.new Impl.Blake2.b outlen = some u ∧
      o'.ctx = u.ctx ∧ o'.computed = u.computed := by
  have := current_reset_generic Spec.Blake2.b good_b outlen ho key hk bKeyAssert (by rw [bKeyAssert_eq]; exact hk)
  simpa [impl_b_eq_spec_b] using this

end Cx.Proofs.MacBlake2
