/-
  Proofs.EdwardsGroupLaw — the group law of edwards25519, PROVED: the curve −x² + y² = 1 + d·x²·y² is closed
  under the affine addition law of RFC 8032 and the addition is associative on curve points.  This discharges
  the hypothesis `EdSpec.EdwardsGroupLaw` of Proofs/EdwardsSpec.lean (only `Nat.Prime p` remains, as an
  instance argument).

  Structure:
  * field level (any field `F`): `closed_field`, `addX_assoc`, `addY_assoc` — for curve points whose relevant
    denominators do not vanish, from the polynomial identities of Proofs/EdwardsAssoc.lean (cofactors computed
    by tools/ed_assoc_cofactors.py, checked by `ring1`);
  * Spec level (`Spec.Edwards.Point`, `Nat` coordinates mod p): the denominators never vanish on curve points
    (`EdSpec.denoms`, completeness: d non-square, sqrtM1² = −1), hence `add_onCurve`, `add_assoc'`, and
    `edwardsGroupLaw`.
-/
import CxVerif.Proofs.EdwardsSpec
import CxVerif.Proofs.EdwardsAssoc
namespace Cx.Proofs.EdGroup
open Cx.Spec Cx.Proofs.EdField Cx.Proofs.EdSpec
open Cx.Spec.Edwards (Point add neg zero onCurve)
open Cx.Spec.Field25519 (p)
open Cx.Proofs.EdAlg (addX addY)

/-! ### field level -/
section field
variable {F : Type} [Field F]

/-! generic fraction bookkeeping (`P`, `M` stand for the denominators `1 ± d·x1·x2·y1·y2`) -/

theorem curve_frac {a b P M k : F} (hP : P ≠ 0) (hM : M ≠ 0)
    (h : -(a * M) ^ 2 + (b * P) ^ 2 = (P * M) ^ 2 + k * a ^ 2 * b ^ 2) :
    -(a / P) ^ 2 + (b / M) ^ 2 = 1 + k * (a / P) ^ 2 * (b / M) ^ 2 := by
  field_simp
  linear_combination h

theorem num_x {a b P M u v : F} (hP : P ≠ 0) (hM : M ≠ 0) :
    a / P * u + v * (b / M) = (a * M * u + v * (b * P)) / (P * M) := by field_simp
theorem num_y {a b P M u v : F} (hP : P ≠ 0) (hM : M ≠ 0) :
    b / M * u + a / P * v = (b * P * u + a * M * v) / (P * M) := by field_simp
theorem den_p {a b P M u v k : F} (hP : P ≠ 0) (hM : M ≠ 0) :
    1 + k * (a / P) * v * (b / M) * u = (P * M + k * a * v * b * u) / (P * M) := by field_simp
theorem den_m {a b P M u v k : F} (hP : P ≠ 0) (hM : M ≠ 0) :
    1 - k * (a / P) * v * (b / M) * u = (P * M - k * a * v * b * u) / (P * M) := by field_simp
theorem num_x' {a b P M u v : F} (hP : P ≠ 0) (hM : M ≠ 0) :
    u * (b / M) + a / P * v = (u * (b * P) + a * M * v) / (P * M) := by field_simp
theorem num_y' {a b P M u v : F} (hP : P ≠ 0) (hM : M ≠ 0) :
    v * (b / M) + u * (a / P) = (v * (b * P) + u * (a * M)) / (P * M) := by field_simp
theorem den_p' {a b P M u v k : F} (hP : P ≠ 0) (hM : M ≠ 0) :
    1 + k * u * (a / P) * v * (b / M) = (P * M + k * u * a * v * b) / (P * M) := by field_simp
theorem den_m' {a b P M u v k : F} (hP : P ≠ 0) (hM : M ≠ 0) :
    1 - k * u * (a / P) * v * (b / M) = (P * M - k * u * a * v * b) / (P * M) := by field_simp

/-- `(n₁/c₁)/(d₁/c₁) = (n₂/c₂)/(d₂/c₂)` from the cross-multiplied identity -/
theorem frac_eq {n1 d1 c1 n2 d2 c2 : F} (hc1 : c1 ≠ 0) (hc2 : c2 ≠ 0)
    (hd1 : d1 / c1 ≠ 0) (hd2 : d2 / c2 ≠ 0) (h : n1 * d2 = n2 * d1) :
    n1 / c1 / (d1 / c1) = n2 / c2 / (d2 / c2) := by
  have h1 : d1 ≠ 0 := (div_ne_zero_iff.1 hd1).1
  have h2 : d2 ≠ 0 := (div_ne_zero_iff.1 hd2).1
  rw [div_div_div_cancel_right₀ hc1, div_div_div_cancel_right₀ hc2, div_eq_div_iff h1 h2]
  exact h

/-- closure: the affine sum of two curve points lies on the curve (when its denominators do not vanish) -/
theorem closed_field {d x1 y1 x2 y2 : F} (h1 : EdAlg.OnCurve d x1 y1) (h2 : EdAlg.OnCurve d x2 y2)
    (hp : 1 + d * x1 * x2 * y1 * y2 ≠ 0) (hm : 1 - d * x1 * x2 * y1 * y2 ≠ 0) :
    EdAlg.OnCurve d (addX d x1 y1 x2 y2) (addY d x1 y1 x2 y2) := by
  unfold EdAlg.OnCurve at *
  unfold addX addY
  exact curve_frac hp hm (EdAssoc.closed_poly d x1 y1 x2 y2 h1 h2)

/-- associativity of the affine law, x-coordinate, for three curve points with non-vanishing denominators -/
theorem addX_assoc {d x1 y1 x2 y2 x3 y3 : F}
    (h1 : EdAlg.OnCurve d x1 y1) (h2 : EdAlg.OnCurve d x2 y2) (h3 : EdAlg.OnCurve d x3 y3)
    (hp12 : 1 + d * x1 * x2 * y1 * y2 ≠ 0) (hm12 : 1 - d * x1 * x2 * y1 * y2 ≠ 0)
    (hp23 : 1 + d * x2 * x3 * y2 * y3 ≠ 0) (hm23 : 1 - d * x2 * x3 * y2 * y3 ≠ 0)
    (hpL : 1 + d * addX d x1 y1 x2 y2 * x3 * addY d x1 y1 x2 y2 * y3 ≠ 0)
    (hpR : 1 + d * x1 * addX d x2 y2 x3 y3 * y1 * addY d x2 y2 x3 y3 ≠ 0) :
    addX d (addX d x1 y1 x2 y2) (addY d x1 y1 x2 y2) x3 y3
      = addX d x1 y1 (addX d x2 y2 x3 y3) (addY d x2 y2 x3 y3) := by
  unfold addX addY at hpL hpR ⊢
  rw [den_p hp12 hm12] at hpL
  rw [den_p' hp23 hm23] at hpR
  rw [num_x hp12 hm12, den_p hp12 hm12, num_x' hp23 hm23, den_p' hp23 hm23]
  exact frac_eq (mul_ne_zero hp12 hm12) (mul_ne_zero hp23 hm23) hpL hpR
    (EdAssoc.assoc_x_poly d x1 y1 x2 y2 x3 y3 h1 h2 h3)

/-- associativity of the affine law, y-coordinate -/
theorem addY_assoc {d x1 y1 x2 y2 x3 y3 : F}
    (h1 : EdAlg.OnCurve d x1 y1) (h2 : EdAlg.OnCurve d x2 y2) (h3 : EdAlg.OnCurve d x3 y3)
    (hp12 : 1 + d * x1 * x2 * y1 * y2 ≠ 0) (hm12 : 1 - d * x1 * x2 * y1 * y2 ≠ 0)
    (hp23 : 1 + d * x2 * x3 * y2 * y3 ≠ 0) (hm23 : 1 - d * x2 * x3 * y2 * y3 ≠ 0)
    (hmL : 1 - d * addX d x1 y1 x2 y2 * x3 * addY d x1 y1 x2 y2 * y3 ≠ 0)
    (hmR : 1 - d * x1 * addX d x2 y2 x3 y3 * y1 * addY d x2 y2 x3 y3 ≠ 0) :
    addY d (addX d x1 y1 x2 y2) (addY d x1 y1 x2 y2) x3 y3
      = addY d x1 y1 (addX d x2 y2 x3 y3) (addY d x2 y2 x3 y3) := by
  unfold addX addY at hmL hmR ⊢
  rw [den_m hp12 hm12] at hmL
  rw [den_m' hp23 hm23] at hmR
  rw [num_y hp12 hm12, den_m hp12 hm12, num_y' hp23 hm23, den_m' hp23 hm23]
  exact frac_eq (mul_ne_zero hp12 hm12) (mul_ne_zero hp23 hm23) hmL hmR
    (EdAssoc.assoc_y_poly d x1 y1 x2 y2 x3 y3 h1 h2 h3)

end field

/-! ### Spec level -/
section spec
variable [hp : Fact (Nat.Prime p)]

/-- closure of the curve under the affine addition of the Spec -/
theorem add_onCurve (P Q : Point) (hP : OnCurve P) (hQ : OnCurve Q) : OnCurve (add P Q) := by
  obtain ⟨_, _, h1⟩ := (onCurve_iff P).1 hP
  obtain ⟨_, _, h2⟩ := (onCurve_iff Q).1 hQ
  obtain ⟨hpd, hmd⟩ := denoms P Q hP hQ
  rw [onCurve_iff]
  refine ⟨add_x_lt _ _, add_y_lt _ _, ?_⟩
  rw [cast_add_x, cast_add_y]
  exact closed_field h1 h2 hpd hmd

/-- associativity of the affine addition of the Spec on curve points -/
theorem add_assoc' (P Q R : Point) (hP : OnCurve P) (hQ : OnCurve Q) (hR : OnCurve R) :
    add (add P Q) R = add P (add Q R) := by
  obtain ⟨_, _, h1⟩ := (onCurve_iff P).1 hP
  obtain ⟨_, _, h2⟩ := (onCurve_iff Q).1 hQ
  obtain ⟨_, _, h3⟩ := (onCurve_iff R).1 hR
  obtain ⟨hp12, hm12⟩ := denoms P Q hP hQ
  obtain ⟨hp23, hm23⟩ := denoms Q R hQ hR
  obtain ⟨hpL, hmL⟩ := denoms (add P Q) R (add_onCurve P Q hP hQ) hR
  obtain ⟨hpR, hmR⟩ := denoms P (add Q R) hP (add_onCurve Q R hQ hR)
  rw [cast_add_x P Q, cast_add_y P Q] at hpL hmL
  rw [cast_add_x Q R, cast_add_y Q R] at hpR hmR
  apply point_ext (add_x_lt _ _) (add_y_lt _ _) (add_x_lt _ _) (add_y_lt _ _)
  · rw [cast_add_x (add P Q) R, cast_add_x P (add Q R), cast_add_x P Q, cast_add_y P Q, cast_add_x Q R,
      cast_add_y Q R]
    exact addX_assoc h1 h2 h3 hp12 hm12 hp23 hm23 hpL hpR
  · rw [cast_add_y (add P Q) R, cast_add_y P (add Q R), cast_add_x P Q, cast_add_y P Q, cast_add_x Q R,
      cast_add_y Q R]
    exact addY_assoc h1 h2 h3 hp12 hm12 hp23 hm23 hmL hmR

/-- **The group law of edwards25519** (closure and associativity of the affine addition on curve points):
    the hypothesis `EdwardsGroupLaw` of Proofs/EdwardsSpec.lean holds, given only that `p = 2^255 − 19` is prime. -/
theorem edwardsGroupLaw : EdwardsGroupLaw := ⟨add_onCurve, add_assoc'⟩

end spec

end Cx.Proofs.EdGroup
