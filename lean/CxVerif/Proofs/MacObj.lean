/-
  Proofs.MacObj — the generic simulation lemma of property C09 for the history machine `Impl.Digest.runHist`:
  an object family `F` (a legacy digest type, `Hmac<D>`, a keyed BLAKE2 wrapper) whose methods respect an abstraction
  relation (`Contract`) behaves on EVERY history exactly like the abstract object `Spec.MacObj.Abs`
  (function under the retained key, bytes since the last reset, finished?) — induction over the op list, including
  clone / swap, reset, reset_with_key, result into buffers of any length, and the ops after which the object refuses.
  Core Lean only.
-/
import CxVerif.Impl.Digest
namespace Cx.Proofs.MacObj
open Cx Cx.Impl.Digest Cx.Spec.MacObj

abbrev Fn := Bytes → Bytes

/-- The step obligations of an object family against the abstract object.
    `Rel s f m`: `s` is an object that computes `f`, has absorbed exactly `m` since creation / the last reset and has
    not produced its result; `Fin s f`: it has produced its result (and still retains the key of `f`).
    `ok m` is the domain guard of the underlying hash (e.g. `m.length < 2^61`), needed only where a result is asked for.
    `fk k`: the function after `reset_with_key(k)` (`none` = refused / no such method). -/
structure Contract {σ : Type} (F : ObjFam σ) (outLen : Nat) (sizes : List Nat) (fk : Bytes → Option Fn)
    (ok : Fn → Bytes → Prop) (Rel : σ → Fn → Bytes → Prop) (Fin : σ → Fn → Prop) : Prop where
  input : ∀ s f m b, Rel s f m → ∃ s', F.input s b = some s' ∧ Rel s' f (m ++ b)
  raw_result : ∀ s f m, Rel s f m → ok f m → ∃ s', F.raw_result s outLen = some (s', f m) ∧ Fin s' f
  raw_bad : ∀ s f m n, Rel s f m → ok f m → n ≠ outLen → F.raw_result s n = none
  result : ∀ s f m, Rel s f m → ok f m → ∃ s', F.result s = some (s', f m) ∧ Fin s' f
  reset : ∀ s f m, Rel s f m → ∃ s', F.reset s = some s' ∧ Rel s' f []
  reset_fin : ∀ s f, Fin s f → ∃ s', F.reset s = some s' ∧ Rel s' f []
  rekey : ∀ s f m k f', Rel s f m → fk k = some f' → ∃ s', F.reset_with_key s k = some s' ∧ Rel s' f' []
  rekey_fin : ∀ s f k f', Fin s f → fk k = some f' → ∃ s', F.reset_with_key s k = some s' ∧ Rel s' f' []
  rekey_bad : ∀ s f m k, Rel s f m → fk k = none → F.reset_with_key s k = none
  rekey_bad_fin : ∀ s f k, Fin s f → fk k = none → F.reset_with_key s k = none
  fin_input : ∀ s f b, Fin s f → F.input s b = none
  fin_result : ∀ s f, Fin s f → F.result s = none
  fin_raw : ∀ s f n, Fin s f → F.raw_result s n = none
  out_rel : ∀ s f m, Rel s f m → F.output_bytes s = outLen
  out_fin : ∀ s f, Fin s f → F.output_bytes s = outLen
  sizes_rel : ∀ s f m, Rel s f m → F.sizes s = sizes
  sizes_fin : ∀ s f, Fin s f → F.sizes s = sizes
  /-- the values have the reported length -/
  len : ∀ s f m, Rel s f m → ok f m → (f m).length = outLen

/-- concrete object `s` is represented by the abstract object `a` -/
def Sim {σ : Type} (outLen : Nat) (Rel : σ → Fn → Bytes → Prop) (Fin : σ → Fn → Prop) (s : σ) (a : Abs) : Prop :=
  a.outLen = outLen ∧ (if a.finished then Fin s a.f else Rel s a.f a.data)

def StackSim {σ : Type} (outLen : Nat) (Rel : σ → Fn → Bytes → Prop) (Fin : σ → Fn → Prop) : List σ → List Abs → Prop
  | [], [] => True
  | s :: ss, a :: as => Sim outLen Rel Fin s a ∧ StackSim outLen Rel Fin ss as
  | _, _ => False

/-- every result of the history is asked for inside the domain `ok` (checked along the abstract run) -/
def Guard (sizes : List Nat) (fk : Bytes → Option Fn) (ok : Fn → Bytes → Prop) : List Op → Abs → List Abs → Prop
  | [], _, _ => True
  | .input b :: ops, a, st =>
    match Spec.MacObj.input a b with
    | none => True
    | some a' => Guard sizes fk ok ops a' st
  | .result :: ops, a, st =>
    (a.finished = false → ok a.f a.data) ∧
    match Spec.MacObj.result a with
    | none => True
    | some (a', _) => Guard sizes fk ok ops a' st
  | .rawResult n :: ops, a, st =>
    (a.finished = false → ok a.f a.data) ∧
    match Spec.MacObj.resultN a (n.getD a.outLen) with
    | none => True
    | some (a', _) => Guard sizes fk ok ops a' st
  | .reset :: ops, a, st => Guard sizes fk ok ops (Spec.MacObj.reset a) st
  | .resetWithKey k :: ops, a, st =>
    match fk k with
    | none => True
    | some f' => Guard sizes fk ok ops (Spec.MacObj.rekey a f') st
  | .clone :: ops, a, st => Guard sizes fk ok ops a (a :: st)
  | .swap :: ops, a, [] => Guard sizes fk ok ops a []
  | .swap :: ops, a, t :: st => Guard sizes fk ok ops t (a :: st)
  | .sizes :: ops, a, st => Guard sizes fk ok ops a st

/-- **simulation**: on every history whose results are asked for inside the domain, the object family answers
    exactly like the abstract object — the same emitted values, the panic at the same op -/
theorem runHist_sim {σ : Type} {F : ObjFam σ} {outLen : Nat} {sizes : List Nat} {fk : Bytes → Option Fn}
    {ok : Fn → Bytes → Prop} {Rel : σ → Fn → Bytes → Prop} {Fin : σ → Fn → Prop}
    (h : Contract F outLen sizes fk ok Rel Fin) :
    ∀ (ops : List Op) (s : σ) (st : List σ) (out : List Out) (a : Abs) (as : List Abs),
      Sim outLen Rel Fin s a → StackSim outLen Rel Fin st as → Guard sizes fk ok ops a as →
      runHist F ops s st out = runHist (absFam sizes fk) ops a as out := by
  intro ops
  induction ops with
  | nil => intro s st out a as _ _ _; rfl
  | cons op ops ih =>
    intro s st out a as hS hSt hG
    obtain ⟨hL, hS'⟩ := hS
    cases op with
    | input b =>
      cases hf : a.finished with
      | true =>
        rw [hf] at hS'; simp only [if_true] at hS'
        simp [runHist, absFam, Spec.MacObj.input, hf, h.fin_input s a.f b hS']
      | false =>
        rw [hf] at hS'; simp only [Bool.false_eq_true, if_false] at hS'
        obtain ⟨s', e, hR⟩ := h.input s a.f a.data b hS'
        have ea : Spec.MacObj.input a b = some { a with data := a.data ++ b } := by simp [Spec.MacObj.input, hf]
        simp only [Guard, ea] at hG
        simp only [runHist, absFam, e, ea]
        exact ih s' st out _ as ⟨hL, by simp [hf, hR]⟩ hSt hG
    | result =>
      cases hf : a.finished with
      | true =>
        rw [hf] at hS'; simp only [if_true] at hS'
        simp [runHist, absFam, Spec.MacObj.result, Spec.MacObj.resultN, hf, h.fin_result s a.f hS']
      | false =>
        rw [hf] at hS'; simp only [Bool.false_eq_true, if_false] at hS'
        obtain ⟨hok, hG⟩ := hG
        obtain ⟨s', e, hR⟩ := h.result s a.f a.data hS' (hok hf)
        have ea : Spec.MacObj.result a = some ({ a with finished := true }, a.f a.data) := by
          simp [Spec.MacObj.result, Spec.MacObj.resultN, hf]
        simp only [ea] at hG
        simp only [runHist, absFam, e, ea]
        exact ih s' st _ _ as ⟨hL, by simp [hR]⟩ hSt hG
    | rawResult n =>
      cases hf : a.finished with
      | true =>
        rw [hf] at hS'; simp only [if_true] at hS'
        simp [runHist, absFam, Spec.MacObj.resultN, hf, h.fin_raw s a.f _ hS']
      | false =>
        rw [hf] at hS'; simp only [Bool.false_eq_true, if_false] at hS'
        obtain ⟨hok, hG⟩ := hG
        have hob : F.output_bytes s = a.outLen := by rw [h.out_rel s a.f a.data hS', hL]
        generalize hk : n.getD a.outLen = k at hG
        by_cases hn : k = outLen
        · subst hn
          obtain ⟨s', e, hR⟩ := h.raw_result s a.f a.data hS' (hok hf)
          have ea : Spec.MacObj.resultN a k = some ({ a with finished := true }, a.f a.data) := by
            simp [Spec.MacObj.resultN, hf, hL]
          simp only [ea] at hG
          simp only [runHist, absFam, hob, hk, e, ea]
          exact ih s' st _ _ as ⟨hL, by simp [hR]⟩ hSt hG
        · have e := h.raw_bad s a.f a.data k hS' (hok hf) hn
          have ea : Spec.MacObj.resultN a k = none := by
            simp [Spec.MacObj.resultN, hf, hL]; exact hn
          simp [runHist, absFam, hob, hk, e, ea]
    | reset =>
      have : ∃ s', F.reset s = some s' ∧ Rel s' a.f [] := by
        cases hf : a.finished with
        | true => rw [hf] at hS'; exact h.reset_fin s a.f (by simpa using hS')
        | false => rw [hf] at hS'; exact h.reset s a.f a.data (by simpa using hS')
      obtain ⟨s', e, hR⟩ := this
      simp only [Guard] at hG
      simp only [runHist, absFam, e]
      exact ih s' st out _ as ⟨hL, by simp [Spec.MacObj.reset, hR]⟩ hSt hG
    | resetWithKey k =>
      cases hk : fk k with
      | none =>
        have : F.reset_with_key s k = none := by
          cases hf : a.finished with
          | true => rw [hf] at hS'; exact h.rekey_bad_fin s a.f k (by simpa using hS') hk
          | false => rw [hf] at hS'; exact h.rekey_bad s a.f a.data k (by simpa using hS') hk
        simp [runHist, absFam, this, hk]
      | some f' =>
        have : ∃ s', F.reset_with_key s k = some s' ∧ Rel s' f' [] := by
          cases hf : a.finished with
          | true => rw [hf] at hS'; exact h.rekey_fin s a.f k f' (by simpa using hS') hk
          | false => rw [hf] at hS'; exact h.rekey s a.f a.data k f' (by simpa using hS') hk
        obtain ⟨s', e, hR⟩ := this
        simp only [Guard, hk] at hG
        simp only [runHist, absFam, e, hk, Option.map_some]
        exact ih s' st out _ as ⟨hL, by simp [Spec.MacObj.rekey, hR]⟩ hSt hG
    | clone =>
      simp only [runHist]
      exact ih s (s :: st) out a (a :: as) ⟨hL, hS'⟩ ⟨⟨hL, hS'⟩, hSt⟩ hG
    | swap =>
      cases st with
      | nil =>
        cases as with
        | nil => simp only [runHist]; exact ih s [] out a [] ⟨hL, hS'⟩ hSt hG
        | cons t as => exact absurd hSt (by simp [StackSim])
      | cons c cs =>
        cases as with
        | nil => exact absurd hSt (by simp [StackSim])
        | cons t as =>
          simp only [runHist]
          exact ih c (s :: cs) out t (a :: as) hSt.1 ⟨⟨hL, hS'⟩, hSt.2⟩ hG
    | sizes =>
      have : F.sizes s = sizes := by
        cases hf : a.finished with
        | true => rw [hf] at hS'; exact h.sizes_fin s a.f (by simpa using hS')
        | false => rw [hf] at hS'; exact h.sizes_rel s a.f a.data (by simpa using hS')
      simp only [runHist, absFam, this]
      exact ih s st _ a as ⟨hL, hS'⟩ hSt hG

/-- from a freshly constructed object -/
theorem runHist_fresh {σ : Type} {F : ObjFam σ} {outLen : Nat} {sizes : List Nat} {fk : Bytes → Option Fn}
    {ok : Fn → Bytes → Prop} {Rel : σ → Fn → Bytes → Prop} {Fin : σ → Fn → Prop}
    (h : Contract F outLen sizes fk ok Rel Fin) (s : σ) (f : Fn) (hs : Rel s f []) (ops : List Op)
    (hG : Guard sizes fk ok ops (fresh f outLen) []) :
    runHist F ops s [] [] = runHist (absFam sizes fk) ops (fresh f outLen) [] [] :=
  runHist_sim h ops s [] [] (fresh f outLen) [] ⟨rfl, by simpa [fresh] using hs⟩ trivial hG

/-! ### the laws of the abstract object (what "behaves like `Abs`" means for the four clauses of C09) -/

/-- a value is returned only by an unfinished object and it is `f` of the bytes fed since the last reset -/
theorem abs_result_value (a a' : Abs) (n : Nat) (v : Bytes) (h : resultN a n = some (a', v)) :
    v = a.f a.data ∧ a.finished = false ∧ n = a.outLen ∧ a'.finished = true := by
  unfold resultN at h
  split at h
  · cases h
  · split at h
    · cases h
    · rename_i h1 h2
      simp only [Option.some.injEq, Prod.mk.injEq] at h
      obtain ⟨rfl, rfl⟩ := h
      exact ⟨rfl, by simpa using h1, by simpa using h2, rfl⟩

/-- asking again without a reset, or feeding input after a result, is refused -/
theorem abs_after_result (a a' : Abs) (n : Nat) (v : Bytes) (h : resultN a n = some (a', v)) :
    (∀ k, resultN a' k = none) ∧ result a' = none ∧ (∀ b, input a' b = none) := by
  have hf := (abs_result_value a a' n v h).2.2.2
  simp [resultN, result, input, hf]

/-- reset gives the freshly constructed object with the same function (same key and parameters) -/
theorem abs_reset_fresh (a : Abs) : reset a = fresh a.f a.outLen := rfl

end Cx.Proofs.MacObj
