/-
  Proofs.Poly1305Arith — the limb arithmetic of `block`: no u32/u64 overflow under the limb invariant,
  the invariant is re-established, and the value identity modulo 2^130 − 5.
-/
import Mathlib.Tactic.Ring
import CxVerif.Spec.Poly1305
import CxVerif.Impl.Poly1305
namespace Cx.Proofs.Poly1305
open Cx Cx.Impl.Poly1305

theorem and_mask26 (x : Nat) : x &&& 0x3ffffff = x % 2 ^ 26 := Nat.and_two_pow_sub_one_eq_mod x 26
theorem and_mask32 (x : Nat) : x &&& 0xffffffff = x % 2 ^ 32 := Nat.and_two_pow_sub_one_eq_mod x 32

/-- the number represented by five 26-bit limbs -/
def val (h : L5) : Nat := h.l0 + 2 ^ 26 * h.l1 + 2 ^ 52 * h.l2 + 2 ^ 78 * h.l3 + 2 ^ 104 * h.l4

/-- the number represented by four 32-bit words -/
def val4 (w : L4) : Nat := w.w0 + 2 ^ 32 * w.w1 + 2 ^ 64 * w.w2 + 2 ^ 96 * w.w3

/-- THE limb invariant of the accumulator between blocks: all limbs below 2^26 except `h1`, which may
    carry the last (un-propagated) carry `c ≤ 38` of `block` -/
def Inv (h : L5) : Prop := h.l0 < 2 ^ 26 ∧ h.l1 < 2 ^ 26 + 64 ∧ h.l2 < 2 ^ 26 ∧ h.l3 < 2 ^ 26 ∧ h.l4 < 2 ^ 26

/-- bounds of the clamped key limbs (the five masks of `new`) -/
def RInv (r : L5) : Prop :=
  r.l0 ≤ 0x3ffffff ∧ r.l1 ≤ 0x3ffff03 ∧ r.l2 ≤ 0x3ffc0ff ∧ r.l3 ≤ 0x3f03fff ∧ r.l4 ≤ 0x00fffff

/-- bounds of the message limbs read by `block` (`t4` includes the hibit `1 << 24`) -/
def TInv (t : L5) : Prop := t.l0 < 2 ^ 26 ∧ t.l1 < 2 ^ 26 ∧ t.l2 < 2 ^ 26 ∧ t.l3 < 2 ^ 26 ∧ t.l4 < 2 ^ 25

instance (h : L5) : Decidable (Inv h) := by unfold Inv; infer_instance
instance (h : L5) : Decidable (RInv h) := by unfold RInv; infer_instance
instance (h : L5) : Decidable (TInv h) := by unfold TInv; infer_instance

/-- the 25-product identity: schoolbook product of the limb polynomials = the five folded columns
    (limbs of weight ≥ 2^130 folded down with the factor 5) + (2^130 − 5)·K, written without subtraction -/
theorem mul_identity (a0 a1 a2 a3 a4 r0 r1 r2 r3 r4 : Nat) :
    (a0 + 2^26 * a1 + 2^52 * a2 + 2^78 * a3 + 2^104 * a4) * (r0 + 2^26 * r1 + 2^52 * r2 + 2^78 * r3 + 2^104 * r4)
      + 5 * ((a1*r4 + a2*r3 + a3*r2 + a4*r1) + 2^26 * (a2*r4 + a3*r3 + a4*r2) + 2^52 * (a3*r4 + a4*r3) + 2^78 * (a4*r4))
    = (a0 * r0 + a1 * (r4*5) + a2 * (r3*5) + a3 * (r2*5) + a4 * (r1*5))
      + 2^26 * (a0 * r1 + a1 * r0 + a2 * (r4*5) + a3 * (r3*5) + a4 * (r2*5))
      + 2^52 * (a0 * r2 + a1 * r1 + a2 * r0 + a3 * (r4*5) + a4 * (r3*5))
      + 2^78 * (a0 * r3 + a1 * r2 + a2 * r1 + a3 * r0 + a4 * (r4*5))
      + 2^104 * (a0 * r4 + a1 * r3 + a2 * r2 + a3 * r1 + a4 * r0)
      + 2^130 * ((a1*r4 + a2*r3 + a3*r2 + a4*r1) + 2^26 * (a2*r4 + a3*r3 + a4*r2) + 2^52 * (a3*r4 + a4*r3) + 2^78 * (a4*r4)) := by
  ring

/-- the partial carry propagation of `block`, relationally: given bounded columns, every intermediate fits its
    type, the output limbs satisfy the invariant, and the represented value changes by a multiple of p -/
theorem carry_rel (d0 d1 d2 d3 d4 d1' d2' d3' d4' c4 c4x5 h0' o0 o1 o2 o3 o4 : Nat)
    (b0 : d0 ≤ 2^58 - 2^32) (b1 : d1 ≤ 2^58 - 2^32) (b2 : d2 ≤ 2^58 - 2^32) (b3 : d3 ≤ 2^58 - 2^32) (b4 : d4 ≤ 2^55)
    (k1 : d1' = d1 + (d0 >>> 26) % 2^32) (k2 : d2' = d2 + (d1' >>> 26) % 2^32)
    (k3 : d3' = d3 + (d2' >>> 26) % 2^32) (k4 : d4' = d4 + (d3' >>> 26) % 2^32)
    (kc : c4 = (d4' >>> 26) % 2^32) (kx : c4x5 = c4 * 5)
    (kh : h0' = ((d0 % 2^32) &&& 0x3ffffff) + c4x5)
    (e0 : o0 = h0' &&& 0x3ffffff)
    (e1 : o1 = ((d1' % 2^32) &&& 0x3ffffff) + (h0' >>> 26))
    (e2 : o2 = (d2' % 2^32) &&& 0x3ffffff)
    (e3 : o3 = (d3' % 2^32) &&& 0x3ffffff)
    (e4 : o4 = (d4' % 2^32) &&& 0x3ffffff) :
    d1' < 2^64 ∧ d2' < 2^64 ∧ d3' < 2^64 ∧ d4' < 2^64 ∧ c4x5 < 2^32 ∧ h0' < 2^32 ∧ o1 < 2^32 ∧
    o0 < 2^26 ∧ o1 < 2^26 + 64 ∧ o2 < 2^26 ∧ o3 < 2^26 ∧ o4 < 2^26 ∧
    o0 + 2^26 * o1 + 2^52 * o2 + 2^78 * o3 + 2^104 * o4 + (2^130 - 5) * c4
      = d0 + 2^26 * d1 + 2^52 * d2 + 2^78 * d3 + 2^104 * d4 := by
  simp only [Nat.shiftRight_eq_div_pow, and_mask26] at k1 k2 k3 k4 kc kh e0 e1 e2 e3 e4
  have f1 : d1' = d1 + d0 / 2^26 := by omega
  have f2 : d2' = d2 + d1' / 2^26 := by omega
  have f3 : d3' = d3 + d2' / 2^26 := by omega
  have f4 : d4' = d4 + d3' / 2^26 := by omega
  have fc : c4 = d4' / 2^26 := by omega
  have fh : h0' = d0 % 2^26 + c4 * 5 := by omega
  have g1 : o1 = d1' % 2^26 + h0' / 2^26 := by omega
  have g2 : o2 = d2' % 2^26 := by omega
  have g3 : o3 = d3' % 2^26 := by omega
  have g4 : o4 = d4' % 2^26 := by omega
  have g0 : o0 = h0' % 2^26 := e0
  clear k1 k2 k3 k4 kc kh e0 e1 e2 e3 e4
  omega

/-- the same bounds as `Inv`/`RInv`/`TInv` give these column bounds -/
theorem cols_bound (a0 a1 a2 a3 a4 r0 r1 r2 r3 r4 s1 s2 s3 s4 : Nat)
    (ha0 : a0 ≤ 2^27) (ha1 : a1 ≤ 2^27 + 64) (ha2 : a2 ≤ 2^27) (ha3 : a3 ≤ 2^27) (ha4 : a4 ≤ 2^26 + 2^25)
    (hr0 : r0 ≤ 0x3ffffff) (hr1 : r1 ≤ 0x3ffff03) (hr2 : r2 ≤ 0x3ffc0ff) (hr3 : r3 ≤ 0x3f03fff) (hr4 : r4 ≤ 0x00fffff)
    (hs1 : s1 = r1 * 5) (hs2 : s2 = r2 * 5) (hs3 : s3 = r3 * 5) (hs4 : s4 = r4 * 5) :
    a0 * r0 + a1 * s4 + a2 * s3 + a3 * s2 + a4 * s1 ≤ 2^58 - 2^32 ∧
    a0 * r1 + a1 * r0 + a2 * s4 + a3 * s3 + a4 * s2 ≤ 2^58 - 2^32 ∧
    a0 * r2 + a1 * r1 + a2 * r0 + a3 * s4 + a4 * s3 ≤ 2^58 - 2^32 ∧
    a0 * r3 + a1 * r2 + a2 * r1 + a3 * r0 + a4 * s4 ≤ 2^58 - 2^32 ∧
    a0 * r4 + a1 * r3 + a2 * r2 + a3 * r1 + a4 * r0 ≤ 2^55 := by
  have hs1' : s1 ≤ 0x3ffff03 * 5 := by omega
  have hs2' : s2 ≤ 0x3ffc0ff * 5 := by omega
  have hs3' : s3 ≤ 0x3f03fff * 5 := by omega
  have hs4' : s4 ≤ 0x00fffff * 5 := by omega
  have p00 := Nat.mul_le_mul ha0 hr0
  have p01 := Nat.mul_le_mul ha0 hr1
  have p02 := Nat.mul_le_mul ha0 hr2
  have p03 := Nat.mul_le_mul ha0 hr3
  have p04 := Nat.mul_le_mul ha0 hr4
  have p10 := Nat.mul_le_mul ha1 hr0
  have p11 := Nat.mul_le_mul ha1 hr1
  have p12 := Nat.mul_le_mul ha1 hr2
  have p13 := Nat.mul_le_mul ha1 hr3
  have q14 := Nat.mul_le_mul ha1 hs4'
  have p20 := Nat.mul_le_mul ha2 hr0
  have p21 := Nat.mul_le_mul ha2 hr1
  have p22 := Nat.mul_le_mul ha2 hr2
  have q23 := Nat.mul_le_mul ha2 hs3'
  have q24 := Nat.mul_le_mul ha2 hs4'
  have p30 := Nat.mul_le_mul ha3 hr0
  have p31 := Nat.mul_le_mul ha3 hr1
  have q32 := Nat.mul_le_mul ha3 hs2'
  have q33 := Nat.mul_le_mul ha3 hs3'
  have q34 := Nat.mul_le_mul ha3 hs4'
  have p40 := Nat.mul_le_mul ha4 hr0
  have q41 := Nat.mul_le_mul ha4 hs1'
  have q42 := Nat.mul_le_mul ha4 hs2'
  have q43 := Nat.mul_le_mul ha4 hs3'
  have q44 := Nat.mul_le_mul ha4 hs4'
  refine ⟨?_, ?_, ?_, ?_, ?_⟩ <;> omega

/-- gluing the two identities modulo p -/
theorem mod_p_of_identities (X K c V D : Nat) (mi : X + 5 * K = D + 2 ^ 130 * K) (hv : V + (2 ^ 130 - 5) * c = D) :
    V % Spec.Poly1305.p = X % Spec.Poly1305.p := by
  have hX : X = V + Spec.Poly1305.p * (c + K) := by
    simp only [Spec.Poly1305.p]; omega
  rw [hX, Nat.add_mul_mod_self_left]

/-- **block arithmetic** (C05 b, C20): under the limb bounds no checked operation of `block` overflows, the output
    satisfies the invariant again, and `val out ≡ (val h + val t) · val r (mod 2^130 − 5)`. -/
theorem blockArith_spec (r h t : L5) (hr : RInv r) (hh : Inv h) (ht : TInv t) :
    (blockArith r h t).Ok ∧ Inv (blockArith r h t).out ∧
    val (blockArith r h t).out % Spec.Poly1305.p = ((val h + val t) * val r) % Spec.Poly1305.p := by
  obtain ⟨hr0, hr1, hr2, hr3, hr4⟩ := hr
  obtain ⟨hh0, hh1, hh2, hh3, hh4⟩ := hh
  obtain ⟨ht0, ht1, ht2, ht3, ht4⟩ := ht
  have ea0 : (blockArith r h t).a0 = h.l0 + t.l0 := rfl
  have ea1 : (blockArith r h t).a1 = h.l1 + t.l1 := rfl
  have ea2 : (blockArith r h t).a2 = h.l2 + t.l2 := rfl
  have ea3 : (blockArith r h t).a3 = h.l3 + t.l3 := rfl
  have ea4 : (blockArith r h t).a4 = h.l4 + t.l4 := rfl
  have es1 : (blockArith r h t).s1 = r.l1 * 5 := rfl
  have es2 : (blockArith r h t).s2 = r.l2 * 5 := rfl
  have es3 : (blockArith r h t).s3 = r.l3 * 5 := rfl
  have es4 : (blockArith r h t).s4 = r.l4 * 5 := rfl
  have ed0 : (blockArith r h t).d0 = (blockArith r h t).a0 * r.l0 + (blockArith r h t).a1 * (blockArith r h t).s4
      + (blockArith r h t).a2 * (blockArith r h t).s3 + (blockArith r h t).a3 * (blockArith r h t).s2
      + (blockArith r h t).a4 * (blockArith r h t).s1 := rfl
  have ed1 : (blockArith r h t).d1 = (blockArith r h t).a0 * r.l1 + (blockArith r h t).a1 * r.l0
      + (blockArith r h t).a2 * (blockArith r h t).s4 + (blockArith r h t).a3 * (blockArith r h t).s3
      + (blockArith r h t).a4 * (blockArith r h t).s2 := rfl
  have ed2 : (blockArith r h t).d2 = (blockArith r h t).a0 * r.l2 + (blockArith r h t).a1 * r.l1
      + (blockArith r h t).a2 * r.l0 + (blockArith r h t).a3 * (blockArith r h t).s4
      + (blockArith r h t).a4 * (blockArith r h t).s3 := rfl
  have ed3 : (blockArith r h t).d3 = (blockArith r h t).a0 * r.l3 + (blockArith r h t).a1 * r.l2
      + (blockArith r h t).a2 * r.l1 + (blockArith r h t).a3 * r.l0
      + (blockArith r h t).a4 * (blockArith r h t).s4 := rfl
  have ed4 : (blockArith r h t).d4 = (blockArith r h t).a0 * r.l4 + (blockArith r h t).a1 * r.l3
      + (blockArith r h t).a2 * r.l2 + (blockArith r h t).a3 * r.l1
      + (blockArith r h t).a4 * r.l0 := rfl
  have k1 : (blockArith r h t).d1' = (blockArith r h t).d1 + ((blockArith r h t).d0 >>> 26) % 2^32 := rfl
  have k2 : (blockArith r h t).d2' = (blockArith r h t).d2 + ((blockArith r h t).d1' >>> 26) % 2^32 := rfl
  have k3 : (blockArith r h t).d3' = (blockArith r h t).d3 + ((blockArith r h t).d2' >>> 26) % 2^32 := rfl
  have k4 : (blockArith r h t).d4' = (blockArith r h t).d4 + ((blockArith r h t).d3' >>> 26) % 2^32 := rfl
  have kc : (blockArith r h t).c4 = ((blockArith r h t).d4' >>> 26) % 2^32 := rfl
  have kx : (blockArith r h t).c4x5 = (blockArith r h t).c4 * 5 := rfl
  have kh : (blockArith r h t).h0' = (((blockArith r h t).d0 % 2^32) &&& 0x3ffffff) + (blockArith r h t).c4x5 := rfl
  have e0 : (blockArith r h t).out.l0 = (blockArith r h t).h0' &&& 0x3ffffff := rfl
  have e1 : (blockArith r h t).out.l1 = (((blockArith r h t).d1' % 2^32) &&& 0x3ffffff) + ((blockArith r h t).h0' >>> 26) := rfl
  have e2 : (blockArith r h t).out.l2 = ((blockArith r h t).d2' % 2^32) &&& 0x3ffffff := rfl
  have e3 : (blockArith r h t).out.l3 = ((blockArith r h t).d3' % 2^32) &&& 0x3ffffff := rfl
  have e4 : (blockArith r h t).out.l4 = ((blockArith r h t).d4' % 2^32) &&& 0x3ffffff := rfl
  have ec5 : (blockArith r h t).c5 = (blockArith r h t).out.l1 := rfl
  generalize blockArith r h t = B at *
  have cb := cols_bound B.a0 B.a1 B.a2 B.a3 B.a4 r.l0 r.l1 r.l2 r.l3 r.l4 B.s1 B.s2 B.s3 B.s4
    (by omega) (by omega) (by omega) (by omega) (by omega) hr0 hr1 hr2 hr3 hr4 es1 es2 es3 es4
  rw [← ed0, ← ed1, ← ed2, ← ed3, ← ed4] at cb
  obtain ⟨b0, b1, b2, b3, b4⟩ := cb
  have cr := carry_rel B.d0 B.d1 B.d2 B.d3 B.d4 B.d1' B.d2' B.d3' B.d4' B.c4 B.c4x5 B.h0'
    B.out.l0 B.out.l1 B.out.l2 B.out.l3 B.out.l4 b0 b1 b2 b3 b4 k1 k2 k3 k4 kc kx kh e0 e1 e2 e3 e4
  obtain ⟨c1, c2, c3, c4, c5, c6, c7, i0, i1, i2, i3, i4, hv⟩ := cr
  refine ⟨?_, ⟨i0, i1, i2, i3, i4⟩, ?_⟩
  · unfold BlockArith.Ok
    refine ⟨?_, ?_, ?_, ?_, ?_, ?_, ?_, ?_, ?_, ?_, ?_, ?_, ?_, ?_, c1, c2, c3, c4, c5, c6, ?_⟩ <;> omega
  · have mi := mul_identity B.a0 B.a1 B.a2 B.a3 B.a4 r.l0 r.l1 r.l2 r.l3 r.l4
    rw [← es1, ← es2, ← es3, ← es4, ← ed0, ← ed1, ← ed2, ← ed3, ← ed4] at mi
    have hva : val h + val t = B.a0 + 2^26 * B.a1 + 2^52 * B.a2 + 2^78 * B.a3 + 2^104 * B.a4 := by
      simp only [val]; omega
    rw [hva]
    simp only [val] at hv ⊢
    generalize (B.a1 * r.l4 + B.a2 * r.l3 + B.a3 * r.l2 + B.a4 * r.l1 + 2 ^ 26 * (B.a2 * r.l4 + B.a3 * r.l3 + B.a4 * r.l2) +
            2 ^ 52 * (B.a3 * r.l4 + B.a4 * r.l3) + 2 ^ 78 * (B.a4 * r.l4)) = K at mi
    generalize (B.a0 + 2 ^ 26 * B.a1 + 2 ^ 52 * B.a2 + 2 ^ 78 * B.a3 + 2 ^ 104 * B.a4) *
          (r.l0 + 2 ^ 26 * r.l1 + 2 ^ 52 * r.l2 + 2 ^ 78 * r.l3 + 2 ^ 104 * r.l4) = X at mi ⊢
    exact mod_p_of_identities _ _ _ _ _ mi hv

end Cx.Proofs.Poly1305
