/-
  Proofs.SimdBlake2Ctx — the context paths of Impl.SimdBlake2 (`CtxW.*`, compression function as a parameter) are the
  context paths of Impl.Blake2 whenever the compression function agrees with `reference_compress` on every input.
-/
import CxVerif.Impl.SimdBlake2
namespace Cx.Proofs.SimdBlake2
open Cx Cx.Impl.Simd Cx.Impl.SimdBlake2
open Cx.Spec.Blake2 (Word Params)
open Cx.Impl.Blake2 (LastBlock Profile Engine Ctx reference_compress)

section
variable {W : Type} [Word W]

/-- `cmp` computes the portable compression on every input -/
def IsReference (P : Params W) (cmp : Cmp W) : Prop :=
  ∀ h t0 t1 buf last, cmp h t0 t1 buf last = some (reference_compress P h t0 t1 buf last)

theorem compress_with_eq (P : Params W) (cmp : Cmp W) (hc : IsReference P cmp) (e : Engine W) (buf : Bytes) (last : LastBlock) :
    Engine.compress_with cmp e buf last = some (e.compress P buf last) := by
  simp only [Engine.compress_with, hc e.h e.t0 e.t1 buf last, Engine.compress]

theorem update_loop_eq (P : Params W) (cmp : Cmp W) (hc : IsReference P cmp) :
    ∀ (fuel : Nat) (e : Engine W) (input : Bytes),
      CtxW.update_loop P cmp fuel e input = Ctx.update_loop P .wrapping fuel e input := by
  intro fuel
  induction fuel with
  | zero => intro e input; rfl
  | succ n ih =>
    intro e input
    simp only [CtxW.update_loop, Ctx.update_loop]
    split
    · cases h : e.increment_counter .wrapping P.bb with
      | none => rfl
      | some e' => simp only [compress_with_eq P cmp hc, ih]; try rfl
    · rfl

theorem update_mut_eq (P : Params W) (cmp : Cmp W) (hc : IsReference P cmp) (c : Ctx W) (input : Bytes) :
    CtxW.update_mut P cmp c input = Ctx.update_mut P .wrapping c input := by
  simp only [CtxW.update_mut, Ctx.update_mut]
  split
  · rfl
  · split
    · cases h : c.eng.increment_counter .wrapping P.bb with
      | none => rfl
      | some e' => simp only [compress_with_eq P cmp hc, update_loop_eq P cmp hc]; try rfl
    · rfl

theorem internal_final_eq (P : Params W) (cmp : Cmp W) (hc : IsReference P cmp) (c : Ctx W) :
    CtxW.internal_final P cmp c = Ctx.internal_final P .wrapping c := by
  simp only [CtxW.internal_final, Ctx.internal_final]
  cases h : c.eng.increment_counter .wrapping (c.buflen % 2 ^ Word.bits W) with
  | none => rfl
  | some e' => simp only [compress_with_eq P cmp hc]; try rfl

theorem finalize_at_eq (P : Params W) (cmp : Cmp W) (hc : IsReference P cmp) (c : Ctx W) (outlen outLen : Nat) :
    CtxW.finalize_at P cmp c outlen outLen = Ctx.finalize_at P .wrapping c outlen outLen := by
  simp only [CtxW.finalize_at, Ctx.finalize_at, internal_final_eq P cmp hc]; try rfl

theorem updates_congr (P : Params W) (cmp cmp' : Cmp W) (hc : IsReference P cmp) (hc' : IsReference P cmp') :
    ∀ (pieces : List Bytes) (c : Ctx W), CtxW.updates P cmp c pieces = CtxW.updates P cmp' c pieces := by
  intro pieces
  induction pieces with
  | nil => intro c; rfl
  | cons p ps ih =>
    intro c
    simp only [CtxW.updates, update_mut_eq P cmp hc, update_mut_eq P cmp' hc']
    cases Ctx.update_mut P .wrapping c p with
    | none => rfl
    | some c' => exact ih c'

/-- any two compression functions that are the portable one give the same digest on every history -/
theorem hash_with_congr (P : Params W) (cmp cmp' : Cmp W) (hc : IsReference P cmp) (hc' : IsReference P cmp')
    (outlen : Nat) (key : Bytes) (counter : Option (Nat × Nat)) (pieces : List Bytes) :
    hash_with P cmp outlen key counter pieces = hash_with P cmp' outlen key counter pieces := by
  simp only [hash_with]
  cases Ctx.new_keyed P outlen key with
  | none => rfl
  | some c =>
    simp only [updates_congr P cmp cmp' hc hc', finalize_at_eq P cmp hc, finalize_at_eq P cmp' hc']; try rfl

/-- one piece, no counter preset: `hash_with` is `Impl.Blake2.blake2_dyn` (ContextDyn::new_keyed, update, finalize_at) -/
theorem hash_with_one (P : Params W) (cmp : Cmp W) (hc : IsReference P cmp) (outlen : Nat) (key msg : Bytes) :
    hash_with P cmp outlen key none [msg] = Impl.Blake2.blake2_dyn P .wrapping outlen key msg := by
  simp only [hash_with, Impl.Blake2.blake2_dyn, Impl.Blake2.ContextDyn.new_keyed, CtxW.updates,
    update_mut_eq P cmp hc, finalize_at_eq P cmp hc, Impl.Blake2.ContextDyn.update, Impl.Blake2.ContextDyn.update_mut,
    Impl.Blake2.ContextDyn.finalize_at]
  cases Ctx.new_keyed P outlen key with
  | none => rfl
  | some c =>
    simp only
    cases Ctx.update_mut P .wrapping c msg with
    | none => rfl
    | some c' => rfl

end
end Cx.Proofs.SimdBlake2
