/-
  Proofs.SimdSha256Sched — the register-rotating message schedule of sse41.rs / avx.rs (`SCHEDULE_ROUND!` over sixteen
  live registers `w0 … w15`, `while i < 32 { 16 rounds }`, then sixteen tail rounds with the explicit stores
  `schedule[48 + p] = w_p + K32[48 + p]`) computes, over ANY register algebra, the FIPS recurrence:

      schedule[k] = add (val k) (set1 K32[k])        for every k < 64,

  whenever `val : Nat → V` satisfies  add (add (val t) (val (t+9))) (add (σ0 (val (t+1))) (σ1 (val (t+14)))) = val (t+16)
  and the registers start as `val 0 … val 15`.  Instances: single words (`wordRegAlg`, `val = Wf m` = FIPS `W_t`) and
  lane vectors (Proofs/SimdSha256Lanes.lean).  The register numbers of every macro invocation are the extracted tables
  (`StdTables` is checked by `decide` for both files), so a changed register argument in the source breaks `std_sse41` /
  `std_avx`.

    Wf, schedule256_eq_Wf       `Spec.Sha2.schedule256 m = [W_0 … W_63]` with `W` as a function of `t`
    Inv, round_spec             the invariant "register r holds W[t + ((r − t) mod 16)]" and one `SCHEDULE_ROUND!`
    scheduleFromRegs_spec       the whole of `message_schedule_Nways` after the loads
  Core Lean only.
-/
import CxVerif.Impl.SimdSha256
import CxVerif.Proofs.Sha2Compress
namespace Cx.Proofs.SimdSha256
open Cx Cx.Impl Cx.Impl.Simd Cx.Impl.SimdSha256 Cx.Impl.Sha2 Cx.Spec.Sha2

/-! ### FIPS `W_t` as a function of `t` -/

/-- `W_t` of FIPS 180-4 §6.2.2 step 1 for the sixteen block words `m` (only used with `m.length = 16`) -/
def Wf (m : List UInt32) (t : Nat) : UInt32 :=
  if t < 16 then m.getD t 0
  else smallSigma1_256 (Wf m (t - 2)) + Wf m (t - 7) + smallSigma0_256 (Wf m (t - 15)) + Wf m (t - 16)
termination_by t
decreasing_by all_goals omega

theorem Wf_lt (m : List UInt32) {t : Nat} (h : t < 16) : Wf m t = m.getD t 0 := by
  rw [Wf]; simp [h]

theorem Wf_ge (m : List UInt32) (t : Nat) :
    Wf m (t + 16) = smallSigma1_256 (Wf m (t + 14)) + Wf m (t + 9) + smallSigma0_256 (Wf m (t + 1)) + Wf m t := by
  rw [Wf]
  have h : ¬ t + 16 < 16 := by omega
  simp only [h, if_false]
  have e1 : t + 16 - 2 = t + 14 := by omega
  have e2 : t + 16 - 7 = t + 9 := by omega
  have e3 : t + 16 - 15 = t + 1 := by omega
  have e4 : t + 16 - 16 = t := by omega
  rw [e1, e2, e3, e4]

/-- `W_{k-1} … W_0`, newest first (the list `extend256` maintains) -/
def Wrev (m : List UInt32) : Nat → List UInt32
  | 0 => []
  | k + 1 => Wf m k :: Wrev m k

theorem extend256_Wrev (m : List UInt32) (n : Nat) : ∀ k, extend256 n (Wrev m (k + 16)) = Wrev m (k + 16 + n) := by
  induction n with
  | zero => intro k; rfl
  | succ n ih =>
    intro k
    show extend256 (n + 1) (Wf m (k + 15) :: Wf m (k + 14) :: Wf m (k + 13) :: Wf m (k + 12) :: Wf m (k + 11) ::
      Wf m (k + 10) :: Wf m (k + 9) :: Wf m (k + 8) :: Wf m (k + 7) :: Wf m (k + 6) :: Wf m (k + 5) :: Wf m (k + 4) ::
      Wf m (k + 3) :: Wf m (k + 2) :: Wf m (k + 1) :: Wf m k :: Wrev m k) = _
    rw [extend256, ← Wf_ge]
    have := ih (k + 1)
    have e : k + 16 + (n + 1) = k + 1 + 16 + n := by omega
    rw [e, ← this]
    rfl

theorem Wrev_reverse (m : List UInt32) (n : Nat) : (Wrev m n).reverse = (List.range n).map (Wf m) := by
  induction n with
  | zero => rfl
  | succ n ih => simp [Wrev, ih, List.range_succ]

/-- the message schedule of the Spec (and of `reference::digest_block_u32`) is `W_0 … W_63` -/
theorem schedule256_eq_Wf (m : List UInt32) (h : m.length = 16) : schedule256 m = (List.range 64).map (Wf m) := by
  obtain ⟨a0, a1, a2, a3, a4, a5, a6, a7, a8, a9, a10, a11, a12, a13, a14, a15, t, rfl⟩ :=
    Cx.Proofs.Sha2Compress.exists16 m (by omega)
  have ht : t = [] := by
    cases t with
    | nil => rfl
    | cons x xs => simp at h
  subst ht
  have h0 : [a0, a1, a2, a3, a4, a5, a6, a7, a8, a9, a10, a11, a12, a13, a14, a15].reverse
      = Wrev [a0, a1, a2, a3, a4, a5, a6, a7, a8, a9, a10, a11, a12, a13, a14, a15] (0 + 16) := by
    simp [Wrev, Wf_lt]
  rw [schedule256, h0, extend256_Wrev, Wrev_reverse]

/-! ### the standard register arguments (both files) -/

/-- `SCHEDULE_ROUND!(schedule, i, w_{t+1}, w_{t+14}, w_t, w_{t+9})`, register numbers mod 16 -/
def stdRegs (t : Nat) : List Nat := [(t + 1) % 16, (t + 14) % 16, t % 16, (t + 9) % 16]
/-- tail statement p: the round, then `schedule[48 + p] = w_p + K32[48 + p]` -/
def stdTail (p : Nat) : List Nat := [(p + 1) % 16, (p + 14) % 16, p % 16, (p + 9) % 16, 48 + p, p]

/-- what the extracted loop tables of a file must be -/
def StdTables (C : Cfg) : Prop :=
  C.loopBound = 32 ∧ C.loopBody = (List.range 16).map stdRegs ∧ C.tail = (List.range 16).map stdTail

theorem std_sse41 : StdTables Sse41.cfg := ⟨by decide, by decide, by decide⟩
theorem std_avx : StdTables Avx.cfg := ⟨by decide, by decide, by decide⟩

/-! ### the invariant -/

/-- the index of the `W` held by register `r` after `t` rounds: the unique `k ∈ [t, t+16)` with `k ≡ r (mod 16)` -/
def regIdx (t r : Nat) : Nat := t + (r + 16 - t % 16) % 16

section generic
variable {V : Type} (A : RegAlg V) (C : Cfg) (val : Nat → V)

/-- after `t` rounds (and the explicit tail stores below `hi`) -/
structure Inv (t hi : Nat) (s : Sched V) : Prop where
  wlen : s.w.length = 16
  slen : s.schedule.length = 64
  regs : ∀ r, r < 16 → s.w[r]? = some (val (regIdx t r))
  sch : ∀ k, (k < t ∨ (48 ≤ k ∧ k < hi)) → ∀ kk, Impl256.K32[k]? = some kk →
    s.schedule[k]? = some (A.sh.add (val k) (A.set1 kk))

theorem K32_some {k : Nat} (h : k < 64) : ∃ kk, Impl256.K32[k]? = some kk := by
  have hl : Impl256.K32.length = 64 := by decide
  exact ⟨Impl256.K32[k]'(by omega), List.getElem?_eq_getElem (by omega)⟩

theorem K32_lt {k : Nat} {kk : UInt32} (h : Impl256.K32[k]? = some kk) : k < 64 := by
  have hl : Impl256.K32.length = 64 := by decide
  have := (List.getElem?_eq_some_iff.mp h).1
  omega

theorem SCHEDULE_ROUND_eq (s : Sched V) (r1 r2 r3 r4 : Nat) (w1 w2 w3 w4 x0 x1 : V) (kk : UInt32)
    (h1 : s.w[r1]? = some w1) (h2 : s.w[r2]? = some w2) (h3 : s.w[r3]? = some w3) (h4 : s.w[r4]? = some w4)
    (hs0 : sigma0 A C w1 = some x0) (hs1 : sigma1 A C w2 = some x1) (hk : Impl256.K32[s.i]? = some kk)
    (hl : s.i < s.schedule.length) :
    SCHEDULE_ROUND A C s [r1, r2, r3, r4]
      = some ⟨s.w.set r3 (A.sh.add (A.sh.add w3 w4) (A.sh.add x0 x1)), s.schedule.set s.i (A.sh.add w3 (A.set1 kk)), s.i⟩ := by
  simp [SCHEDULE_ROUND, storeSchedule, h1, h2, h3, h4, hs0, hs1, hk, hl]

variable (σ0 σ1 : V → V)

/-- one `SCHEDULE_ROUND!` with the standard register arguments advances the invariant -/
theorem round_spec (h0 : ∀ v, sigma0 A C v = some (σ0 v)) (h1 : ∀ v, sigma1 A C v = some (σ1 v))
    (hrec : ∀ t, A.sh.add (A.sh.add (val t) (val (t + 9))) (A.sh.add (σ0 (val (t + 1))) (σ1 (val (t + 14)))) = val (t + 16))
    (t hi : Nat) (s : Sched V) (hI : Inv A val t hi s) (hi' : s.i = t) (ht : t < 48)
    (r1 r2 r3 r4 : Nat) (e1 : r1 = (t + 1) % 16) (e2 : r2 = (t + 14) % 16) (e3 : r3 = t % 16) (e4 : r4 = (t + 9) % 16) :
    ∃ s', SCHEDULE_ROUND A C s [r1, r2, r3, r4] = some s' ∧ Inv A val (t + 1) hi s' ∧ s'.i = t := by
  obtain ⟨kk, hk⟩ := K32_some (k := t) (by omega)
  have g1 : s.w[r1]? = some (val (t + 1)) := by
    rw [hI.regs r1 (by omega)]; congr 2; unfold regIdx; omega
  have g2 : s.w[r2]? = some (val (t + 14)) := by
    rw [hI.regs r2 (by omega)]; congr 2; unfold regIdx; omega
  have g3 : s.w[r3]? = some (val t) := by
    rw [hI.regs r3 (by omega)]; congr 2; unfold regIdx; omega
  have g4 : s.w[r4]? = some (val (t + 9)) := by
    rw [hI.regs r4 (by omega)]; congr 2; unfold regIdx; omega
  refine ⟨_, SCHEDULE_ROUND_eq A C s r1 r2 r3 r4 _ _ _ _ _ _ kk g1 g2 g3 g4 (h0 _) (h1 _) (hi' ▸ hk)
    (by rw [hI.slen]; omega), ?_, hi'⟩
  rw [hrec t]
  constructor
  · simp [hI.wlen]
  · simp [hI.slen]
  · intro r hr
    simp only [List.getElem?_set, hI.wlen]
    by_cases hr3 : r3 = r
    · have : r3 < 16 := by omega
      simp only [hr3, if_true, hr]
      congr 2; unfold regIdx; omega
    · simp only [hr3, if_false]
      rw [hI.regs r hr]; congr 2; unfold regIdx; omega
  · intro k hk' kk' hkk
    simp only [List.getElem?_set, hI.slen, hi']
    by_cases htk : t = k
    · subst htk
      have : kk' = kk := by rw [hk] at hkk; exact (Option.some.inj hkk).symm
      subst this
      have : t < 64 := by omega
      simp [this]
    · simp only [htk, if_false]
      exact hI.sch k (by omega) kk' hkk

/-- `n` consecutive `SCHEDULE_ROUND_INC!` with the standard arguments -/
theorem loopBody_spec (h0 : ∀ v, sigma0 A C v = some (σ0 v)) (h1 : ∀ v, sigma1 A C v = some (σ1 v))
    (hrec : ∀ t, A.sh.add (A.sh.add (val t) (val (t + 9))) (A.sh.add (σ0 (val (t + 1))) (σ1 (val (t + 14)))) = val (t + 16))
    (hi : Nat) (n : Nat) : ∀ (t : Nat) (s : Sched V), Inv A val t hi s → s.i = t → t + n ≤ 48 →
      ∃ s', loopBody A C s ((List.range' t n).map stdRegs) = some s' ∧ Inv A val (t + n) hi s' ∧ s'.i = t + n := by
  induction n with
  | zero => intro t s hI hi' _; exact ⟨s, rfl, hI, hi'⟩
  | succ n ih =>
    intro t s hI hi' ht
    obtain ⟨s1, hs1, hI1, hi1⟩ := round_spec A C val σ0 σ1 h0 h1 hrec t hi s hI hi' (by omega) _ _ _ _ rfl rfl rfl rfl
    obtain ⟨s2, hs2, hI2, hi2⟩ := ih (t + 1) ⟨s1.w, s1.schedule, s1.i + 1⟩ ⟨hI1.wlen, hI1.slen, hI1.regs, hI1.sch⟩
      (by simp [hi1]) (by omega)
    refine ⟨s2, ?_, by rw [show t + (n + 1) = t + 1 + n by omega]; exact hI2, by omega⟩
    simp only [List.range'_succ, List.map_cons, loopBody, SCHEDULE_ROUND_INC, stdRegs, hs1]
    exact hs2

/-- a tail store `schedule[48 + p] = w_p + K32[48 + p]` -/
theorem store_spec (t hi : Nat) (s : Sched V) (hI : Inv A val t hi s) (wk : Nat) (hwk : wk < 16) (hh : 48 ≤ hi) (hh' : hi < 64)
    (hr : regIdx t wk = hi) :
    ∃ s', storeSchedule A s hi wk = some s' ∧ Inv A val t (hi + 1) s' ∧ s'.i = s.i := by
  obtain ⟨kk, hk⟩ := K32_some (k := hi) hh'
  refine ⟨⟨s.w, s.schedule.set hi (A.sh.add (val hi) (A.set1 kk)), s.i⟩, ?_, ?_, rfl⟩
  · simp [storeSchedule, hI.regs wk hwk, hr, hk, hI.slen, hh']
  · constructor
    · exact hI.wlen
    · simp [hI.slen]
    · exact hI.regs
    · intro k hk' kk' hkk
      simp only [List.getElem?_set, hI.slen]
      by_cases htk : hi = k
      · subst htk
        have : kk' = kk := by rw [hk] at hkk; exact (Option.some.inj hkk).symm
        subst this
        simp [hh']
      · simp only [htk, if_false]
        exact hI.sch k (by omega) kk' hkk

/-- the sixteen tail statements -/
theorem tailLoop_spec (h0 : ∀ v, sigma0 A C v = some (σ0 v)) (h1 : ∀ v, sigma1 A C v = some (σ1 v))
    (hrec : ∀ t, A.sh.add (A.sh.add (val t) (val (t + 9))) (A.sh.add (σ0 (val (t + 1))) (σ1 (val (t + 14)))) = val (t + 16))
    (n : Nat) : ∀ (p : Nat) (s : Sched V), Inv A val (32 + p) (48 + p) s → s.i = 32 + p → p + n ≤ 16 →
      ∃ s', tailLoop A C s ((List.range' p n).map stdTail) = some s' ∧ Inv A val (32 + p + n) (48 + p + n) s' := by
  induction n with
  | zero => intro p s hI _ _; exact ⟨s, rfl, hI⟩
  | succ n ih =>
    intro p s hI hi' hp
    obtain ⟨s1, hs1, hI1, hi1⟩ := round_spec A C val σ0 σ1 h0 h1 hrec (32 + p) (48 + p) s hI hi' (by omega)
      ((p + 1) % 16) ((p + 14) % 16) (p % 16) ((p + 9) % 16) (by omega) (by omega) (by omega) (by omega)
    -- with or without the increment, the registers and the schedule are those of `s1`
    have key : ∀ s1' : Sched V, Inv A val (32 + p + 1) (48 + p) s1' → s1'.i = 32 + p ∨ s1'.i = 32 + p + 1 →
        ∃ s2, storeSchedule A s1' (48 + p) p = some s2 ∧ Inv A val (32 + p + 1) (48 + p + 1) s2 ∧ s2.i = s1'.i := by
      intro s1' hI' _
      exact store_spec A val (32 + p + 1) (48 + p) s1' hI' p (by omega) (by omega) (by omega)
        (by unfold regIdx; omega)
    simp only [List.range'_succ, List.map_cons, stdTail, tailLoop, List.isEmpty_map]
    by_cases hn : n = 0
    · subst hn
      obtain ⟨s2, hs2, hI2, _⟩ := key s1 hI1 (Or.inl hi1)
      simp only [List.range'_zero, List.isEmpty_nil, if_true, hs1, hs2, List.map_nil, tailLoop]
      exact ⟨s2, rfl, hI2⟩
    · have hne : (List.range' (p + 1) n).isEmpty = false := by
        cases n with
        | zero => exact absurd rfl hn
        | succ m => simp [List.range'_succ]
      obtain ⟨s2, hs2, hI2, hi2⟩ := key ⟨s1.w, s1.schedule, s1.i + 1⟩ ⟨hI1.wlen, hI1.slen, hI1.regs, hI1.sch⟩
        (Or.inr (by simp [hi1]))
      obtain ⟨s3, hs3, hI3⟩ := ih (p + 1) s2 (by rw [show 32 + (p + 1) = 32 + p + 1 by omega, show 48 + (p + 1) = 48 + p + 1 by omega]; exact hI2)
        (by rw [hi2]; simp [hi1]; omega) (by omega)
      simp only [hne, Bool.false_eq_true, if_false, SCHEDULE_ROUND_INC, hs1, hs2]
      refine ⟨s3, hs3, ?_⟩
      rw [show 32 + p + (n + 1) = 32 + (p + 1) + n by omega, show 48 + p + (n + 1) = 48 + (p + 1) + n by omega]
      exact hI3

/-- **the schedule macro program over any register algebra**: started on `val 0 … val 15` it stores
    `add (val k) (set1 K32[k])` at every `k < 64` and does not panic -/
theorem scheduleFromRegs_spec (hT : StdTables C) (h0 : ∀ v, sigma0 A C v = some (σ0 v)) (h1 : ∀ v, sigma1 A C v = some (σ1 v))
    (hrec : ∀ t, A.sh.add (A.sh.add (val t) (val (t + 9))) (A.sh.add (σ0 (val (t + 1))) (σ1 (val (t + 14)))) = val (t + 16)) :
    ∃ sch, scheduleFromRegs A C ((List.range 16).map val) = some sch ∧ sch.length = 64 ∧
      ∀ k kk, Impl256.K32[k]? = some kk → sch[k]? = some (A.sh.add (val k) (A.set1 kk)) := by
  obtain ⟨hB, hL, hTl⟩ := hT
  have hI0 : Inv A val 0 48 ⟨(List.range 16).map val, List.replicate 64 (A.set1 0), 0⟩ := by
    constructor
    · simp
    · simp
    · intro r hr
      simp [hr, regIdx]
      congr 1; omega
    · intro k hk; omega
  have e0 : (List.range 16).map stdRegs = (List.range' 0 16).map stdRegs := by decide
  have e16 : (List.range 16).map stdRegs = (List.range' 16 16).map stdRegs := by decide
  obtain ⟨s1, hs1, hI1, hi1⟩ := loopBody_spec A C val σ0 σ1 h0 h1 hrec 48 16 0 _ hI0 rfl (by omega)
  obtain ⟨s2, hs2, hI2, hi2⟩ := loopBody_spec A C val σ0 σ1 h0 h1 hrec 48 16 16 s1 hI1 hi1 (by omega)
  rw [← e0] at hs1
  rw [← e16] at hs2
  have hw : whileLoop A C C.loopBound ⟨(List.range 16).map val, List.replicate 64 (A.set1 0), 0⟩ = some s2 := by
    rw [hB]
    simp only [whileLoop, hB, hL, hs1, hs2, hi1, hi2]
    simp
  have et : (List.range 16).map stdTail = (List.range' 0 16).map stdTail := by decide
  obtain ⟨s3, hs3, hI3⟩ := tailLoop_spec A C val σ0 σ1 h0 h1 hrec 16 0 s2 hI2 hi2 (by omega)
  rw [← et] at hs3
  refine ⟨s3.schedule, ?_, hI3.slen, ?_⟩
  · simp only [scheduleFromRegs, hw, hTl, hs3]
  · intro k kk hk
    have := K32_lt hk
    exact hI3.sch k (by omega) kk hk

end generic
end Cx.Proofs.SimdSha256
