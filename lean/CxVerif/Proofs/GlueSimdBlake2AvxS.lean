/-
  Proofs.GlueSimdBlake2AvxS — `avx::compress_s` / `compress_s_avx` (BLAKE2s on four `__m128i` rows) of the generated
  Extracted/GlueSimd.lean (namespace Blake2Avx) against `Impl.SimdBlake2.AvxS`: see Proofs/GlueSimdBlake2.lean for the scheme.
-/
import CxVerif.Proofs.GlueSimdBlake2AvxB
namespace Cx.Proofs.GlueSimdBlake2.AvxSI
open Cx Cx.Intrinsics Cx.Impl Cx.Impl.Simd Cx.Impl.SimdBlake2 Cx.Proofs.SimdBits Cx.Proofs.Keccak Cx.Proofs.SimdBlake2
open Cx.Extracted.GlueSimd Cx.Proofs.GlueSimdBlake2 Cx.Proofs.GlueSimd
open Cx.Impl.Blake2 (LastBlock)
open Cx.Spec.Blake2 (loadWords fromLE)
open Blake2Avx
set_option linter.unusedSimpArgs false

/-- a generated `__m128i` as the model's four 32-bit lanes -/
def to4 (v : M128i) : V4x32 := ⟨v.d0, v.d1, v.d2, v.d3⟩

theorem to4_add (a b : M128i) : to4 (_mm_add_epi32 a b) = (to4 a).add (to4 b) := rfl
theorem to4_xor (a b : M128i) : to4 (_mm_xor_si128 a b) = (to4 a).xor (to4 b) := rfl
theorem to4_unpacklo64 (a b : M128i) : to4 (_mm_unpacklo_epi64 a b) = V4x32.unpacklo_epi64 (to4 a) (to4 b) := rfl
theorem to4_unpackhi64 (a b : M128i) : to4 (_mm_unpackhi_epi64 a b) = V4x32.unpackhi_epi64 (to4 a) (to4 b) := rfl
theorem to4_unpacklo32 (a b : M128i) : to4 (_mm_unpacklo_epi32 a b) = V4x32.unpacklo_epi32 (to4 a) (to4 b) := rfl
theorem to4_unpackhi32 (a b : M128i) : to4 (_mm_unpackhi_epi32 a b) = V4x32.unpackhi_epi32 (to4 a) (to4 b) := rfl
theorem dword_get (a : M128i) (i : Nat) : a.dword i = V4x32.get (to4 a) i := by
  unfold M128i.dword V4x32.get to4; rfl
theorem to4_shuffle_epi32 (a : M128i) (imm : Nat) : to4 (_mm_shuffle_epi32 a imm) = (to4 a).shuffle_epi32 imm := by
  simp only [_mm_shuffle_epi32, V4x32.shuffle_epi32, sel2, to4, dword_get, Nat.pow_zero, Nat.div_one, Nat.pow_one]
theorem to4_shuffle_ps (a b : M128i) (imm : Nat) : to4 (_mm_shuffle_ps a b imm) = V4x32.shuffle_ps (to4 a) (to4 b) imm := by
  simp only [_mm_shuffle_ps, V4x32.shuffle_ps, sel2, to4, dword_get, Nat.pow_zero, Nat.div_one, Nat.pow_one]

theorem blend3 (a b : M128i) : _mm_blend_epi16 a b 3 = ⟨b.d0, a.d1, a.d2, a.d3⟩ := by
  obtain ⟨a0, a1, a2, a3⟩ := a; obtain ⟨b0, b1, b2, b3⟩ := b
  show (⟨_, _, _, _⟩ : M128i) = _
  congr 1 <;> exact word_join _
theorem to4_blend3 (a b : M128i) : to4 (_mm_blend_epi16 a b 3) = V4x32.blend_epi16 (to4 a) (to4 b) 3 := by
  rw [blend3]; rfl
theorem blend12 (a b : M128i) : _mm_blend_epi16 a b 12 = ⟨a.d0, b.d1, a.d2, a.d3⟩ := by
  obtain ⟨a0, a1, a2, a3⟩ := a; obtain ⟨b0, b1, b2, b3⟩ := b
  show (⟨_, _, _, _⟩ : M128i) = _
  congr 1 <;> exact word_join _
theorem to4_blend12 (a b : M128i) : to4 (_mm_blend_epi16 a b 12) = V4x32.blend_epi16 (to4 a) (to4 b) 12 := by
  rw [blend12]; rfl
theorem blend15 (a b : M128i) : _mm_blend_epi16 a b 15 = ⟨b.d0, b.d1, a.d2, a.d3⟩ := by
  obtain ⟨a0, a1, a2, a3⟩ := a; obtain ⟨b0, b1, b2, b3⟩ := b
  show (⟨_, _, _, _⟩ : M128i) = _
  congr 1 <;> exact word_join _
theorem to4_blend15 (a b : M128i) : to4 (_mm_blend_epi16 a b 15) = V4x32.blend_epi16 (to4 a) (to4 b) 15 := by
  rw [blend15]; rfl
theorem blend48 (a b : M128i) : _mm_blend_epi16 a b 48 = ⟨a.d0, a.d1, b.d2, a.d3⟩ := by
  obtain ⟨a0, a1, a2, a3⟩ := a; obtain ⟨b0, b1, b2, b3⟩ := b
  show (⟨_, _, _, _⟩ : M128i) = _
  congr 1 <;> exact word_join _
theorem to4_blend48 (a b : M128i) : to4 (_mm_blend_epi16 a b 48) = V4x32.blend_epi16 (to4 a) (to4 b) 48 := by
  rw [blend48]; rfl
theorem blend51 (a b : M128i) : _mm_blend_epi16 a b 51 = ⟨b.d0, a.d1, b.d2, a.d3⟩ := by
  obtain ⟨a0, a1, a2, a3⟩ := a; obtain ⟨b0, b1, b2, b3⟩ := b
  show (⟨_, _, _, _⟩ : M128i) = _
  congr 1 <;> exact word_join _
theorem to4_blend51 (a b : M128i) : to4 (_mm_blend_epi16 a b 51) = V4x32.blend_epi16 (to4 a) (to4 b) 51 := by
  rw [blend51]; rfl
theorem blend60 (a b : M128i) : _mm_blend_epi16 a b 60 = ⟨a.d0, b.d1, b.d2, a.d3⟩ := by
  obtain ⟨a0, a1, a2, a3⟩ := a; obtain ⟨b0, b1, b2, b3⟩ := b
  show (⟨_, _, _, _⟩ : M128i) = _
  congr 1 <;> exact word_join _
theorem to4_blend60 (a b : M128i) : to4 (_mm_blend_epi16 a b 60) = V4x32.blend_epi16 (to4 a) (to4 b) 60 := by
  rw [blend60]; rfl
theorem blend192 (a b : M128i) : _mm_blend_epi16 a b 192 = ⟨a.d0, a.d1, a.d2, b.d3⟩ := by
  obtain ⟨a0, a1, a2, a3⟩ := a; obtain ⟨b0, b1, b2, b3⟩ := b
  show (⟨_, _, _, _⟩ : M128i) = _
  congr 1 <;> exact word_join _
theorem to4_blend192 (a b : M128i) : to4 (_mm_blend_epi16 a b 192) = V4x32.blend_epi16 (to4 a) (to4 b) 192 := by
  rw [blend192]; rfl
theorem blend240 (a b : M128i) : _mm_blend_epi16 a b 240 = ⟨a.d0, a.d1, b.d2, b.d3⟩ := by
  obtain ⟨a0, a1, a2, a3⟩ := a; obtain ⟨b0, b1, b2, b3⟩ := b
  show (⟨_, _, _, _⟩ : M128i) = _
  congr 1 <;> exact word_join _
theorem to4_blend240 (a b : M128i) : to4 (_mm_blend_epi16 a b 240) = V4x32.blend_epi16 (to4 a) (to4 b) 240 := by
  rw [blend240]; rfl

theorem ofBytes32_zero : Intrinsics.ofBytes32 [0, 0, 0, 0] = 0 := by decide
theorem slli4 (a : M128i) : _mm_slli_si128 a 4 = ⟨0, a.d0, a.d1, a.d2⟩ := by
  obtain ⟨a0, a1, a2, a3⟩ := a
  show (⟨Intrinsics.ofBytes32 [0, 0, 0, 0], Intrinsics.ofBytes32 [Intrinsics.byte32 a0 0, Intrinsics.byte32 a0 1, Intrinsics.byte32 a0 2, Intrinsics.byte32 a0 3],
    Intrinsics.ofBytes32 [Intrinsics.byte32 a1 0, Intrinsics.byte32 a1 1, Intrinsics.byte32 a1 2, Intrinsics.byte32 a1 3],
    Intrinsics.ofBytes32 [Intrinsics.byte32 a2 0, Intrinsics.byte32 a2 1, Intrinsics.byte32 a2 2, Intrinsics.byte32 a2 3]⟩ : M128i) = _
  simp only [ofBytes32_bytes32, ofBytes32_zero]
theorem slli8 (a : M128i) : _mm_slli_si128 a 8 = ⟨0, 0, a.d0, a.d1⟩ := by
  obtain ⟨a0, a1, a2, a3⟩ := a
  show (⟨Intrinsics.ofBytes32 [0, 0, 0, 0], Intrinsics.ofBytes32 [0, 0, 0, 0],
    Intrinsics.ofBytes32 [Intrinsics.byte32 a0 0, Intrinsics.byte32 a0 1, Intrinsics.byte32 a0 2, Intrinsics.byte32 a0 3],
    Intrinsics.ofBytes32 [Intrinsics.byte32 a1 0, Intrinsics.byte32 a1 1, Intrinsics.byte32 a1 2, Intrinsics.byte32 a1 3]⟩ : M128i) = _
  simp only [ofBytes32_bytes32, ofBytes32_zero]
theorem slli12 (a : M128i) : _mm_slli_si128 a 12 = ⟨0, 0, 0, a.d0⟩ := by
  obtain ⟨a0, a1, a2, a3⟩ := a
  show (⟨Intrinsics.ofBytes32 [0, 0, 0, 0], Intrinsics.ofBytes32 [0, 0, 0, 0], Intrinsics.ofBytes32 [0, 0, 0, 0],
    Intrinsics.ofBytes32 [Intrinsics.byte32 a0 0, Intrinsics.byte32 a0 1, Intrinsics.byte32 a0 2, Intrinsics.byte32 a0 3]⟩ : M128i) = _
  simp only [ofBytes32_bytes32, ofBytes32_zero]
theorem srli4 (a : M128i) : _mm_srli_si128 a 4 = ⟨a.d1, a.d2, a.d3, 0⟩ := by
  obtain ⟨a0, a1, a2, a3⟩ := a
  show (⟨Intrinsics.ofBytes32 [Intrinsics.byte32 a1 0, Intrinsics.byte32 a1 1, Intrinsics.byte32 a1 2, Intrinsics.byte32 a1 3],
    Intrinsics.ofBytes32 [Intrinsics.byte32 a2 0, Intrinsics.byte32 a2 1, Intrinsics.byte32 a2 2, Intrinsics.byte32 a2 3],
    Intrinsics.ofBytes32 [Intrinsics.byte32 a3 0, Intrinsics.byte32 a3 1, Intrinsics.byte32 a3 2, Intrinsics.byte32 a3 3],
    Intrinsics.ofBytes32 [0, 0, 0, 0]⟩ : M128i) = _
  simp only [ofBytes32_bytes32, ofBytes32_zero]
theorem srli12 (a : M128i) : _mm_srli_si128 a 12 = ⟨a.d3, 0, 0, 0⟩ := by
  obtain ⟨a0, a1, a2, a3⟩ := a
  show (⟨Intrinsics.ofBytes32 [Intrinsics.byte32 a3 0, Intrinsics.byte32 a3 1, Intrinsics.byte32 a3 2, Intrinsics.byte32 a3 3],
    Intrinsics.ofBytes32 [0, 0, 0, 0], Intrinsics.ofBytes32 [0, 0, 0, 0], Intrinsics.ofBytes32 [0, 0, 0, 0]⟩ : M128i) = _
  simp only [ofBytes32_bytes32, ofBytes32_zero]
theorem to4_slli4 (a : M128i) : to4 (_mm_slli_si128 a 4) = V4x32.slli_si128 (to4 a) 4 := by rw [slli4]; rfl
theorem to4_slli8 (a : M128i) : to4 (_mm_slli_si128 a 8) = V4x32.slli_si128 (to4 a) 8 := by rw [slli8]; rfl
theorem to4_slli12 (a : M128i) : to4 (_mm_slli_si128 a 12) = V4x32.slli_si128 (to4 a) 12 := by rw [slli12]; rfl
theorem to4_srli4 (a : M128i) : to4 (_mm_srli_si128 a 4) = V4x32.srli_si128 (to4 a) 4 := by rw [srli4]; rfl
theorem to4_srli12 (a : M128i) : to4 (_mm_srli_si128 a 12) = V4x32.srli_si128 (to4 a) 12 := by rw [srli12]; rfl
theorem shufflehi78 (a : M128i) : _mm_shufflehi_epi16 a 78 = ⟨a.d0, a.d1, a.d3, a.d2⟩ := by
  obtain ⟨a0, a1, a2, a3⟩ := a
  show (⟨_, _, _, _⟩ : M128i) = _
  congr 1 <;> exact word_join _
theorem to4_shufflehi78 (a : M128i) : to4 (_mm_shufflehi_epi16 a 78) = V4x32.shufflehi_epi16 (to4 a) 78 := by
  rw [shufflehi78]; rfl

/-! ### rotations -/
theorem to4_rotate16 (r : M128i) : to4 (rotate16_epi32_src r) = AvxS.rotate16_epi32 (to4 r) := by
  obtain ⟨d0, d1, d2, d3⟩ := r
  kernel_rfl
theorem to4_rotate8 (r : M128i) : to4 (rotate8_epi32_src r) = AvxS.rotate8_epi32 (to4 r) := by
  obtain ⟨d0, d1, d2, d3⟩ := r
  kernel_rfl
theorem to4_rotate12 (r : M128i) : to4 (rotate12_epi32_src r) = avxsRots.rot12 (to4 r) := by
  rw [avxsRot12_eq]
  obtain ⟨d0, d1, d2, d3⟩ := r
  show (⟨(d0 >>> 12) ^^^ (d0 <<< 20), (d1 >>> 12) ^^^ (d1 <<< 20), (d2 >>> 12) ^^^ (d2 <<< 20), (d3 >>> 12) ^^^ (d3 <<< 20)⟩ : V4x32) = _
  simp only [shr_xor_shl_12]; rfl
theorem to4_rotate7 (r : M128i) : to4 (rotate7_epi32_src r) = avxsRots.rot7 (to4 r) := by
  rw [avxsRot7_eq]
  obtain ⟨d0, d1, d2, d3⟩ := r
  show (⟨(d0 >>> 7) ^^^ (d0 <<< 25), (d1 >>> 7) ^^^ (d1 <<< 25), (d2 >>> 7) ^^^ (d2 <<< 25), (d3 >>> 7) ^^^ (d3 <<< 25)⟩ : V4x32) = _
  simp only [shr_xor_shl_7]; rfl

/-! ### rows, macros -/
abbrev R4 := M128i × M128i × M128i × M128i
abbrev LoadF := M128i → M128i → M128i → M128i → R4
def toRows : R4 → AvxS.Rows
  | (a, b, c, d) => ⟨to4 a, to4 b, to4 c, to4 d⟩
def toL : R4 → List V4x32
  | (a, b, c, d) => [to4 a, to4 b, to4 c, to4 d]

def roundsKS {R : Type} (m0 m1 m2 m3 : M128i) : List LoadF → R4 → (R4 → R) → R
  | [], rows, k => k rows
  | ld :: rest, rows, k =>
    match rows with
    | (r1, r2, r3, r4) =>
      match compress_s_avx_ROUND_src (ld m0 m1 m2 m3) r1 r2 r3 r4 with
      | (a, b, c, d) => roundsKS m0 m1 m2 m3 rest (a, b, c, d) k

/-- CPS copy of the generated `compress_s_avx_src` -/
def compress_s_avx_proK (h : List UInt32) (h_off : Nat) (block : Bytes) (block_off : Nat) (iv : List UInt32) (iv_off : Nat) (t : M128i) : Except String (List UInt32) :=
  match _mm_loadu_si128 block block_off with
  | .error err => .error err
  | .ok v =>
  match _mm_loadu_si128 block (block_off + 16) with
  | .error err => .error err
  | .ok v_1 =>
  match _mm_loadu_si128 block (block_off + 32) with
  | .error err => .error err
  | .ok v_2 =>
  match _mm_loadu_si128 block (block_off + 48) with
  | .error err => .error err
  | .ok v_3 =>
  match _mm_load_si128_u32 h h_off with
  | .error err => .error err
  | .ok v_4 =>
  match _mm_load_si128_u32 h (h_off + 16) with
  | .error err => .error err
  | .ok v_5 =>
  match _mm_loadu_si128_u32 iv iv_off with
  | .error err => .error err
  | .ok v_6 =>
  match _mm_loadu_si128_u32 iv (iv_off + 16) with
  | .error err => .error err
  | .ok v_7 =>
  let row4 := (_mm_xor_si128 v_7 t)
  roundsKS v v_1 v_2 v_3 [compress_s_avx_load0_src, compress_s_avx_load1_src, compress_s_avx_load2_src, compress_s_avx_load3_src, compress_s_avx_load4_src, compress_s_avx_load5_src, compress_s_avx_load6_src, compress_s_avx_load7_src, compress_s_avx_load8_src, compress_s_avx_load9_src] (v_4, v_5, v_6, row4) fun rows =>
  match rows with
  | (row1_9, row2_9, row3_9, row4_10) =>
  match _mm_store_si128_u32 h h_off (_mm_xor_si128 v_4 (_mm_xor_si128 row1_9 row3_9)) with
  | .error err => .error err
  | .ok h_buf =>
  match _mm_store_si128_u32 h_buf (h_off + 16) (_mm_xor_si128 v_5 (_mm_xor_si128 row2_9 row4_10)) with
  | .error err => .error err
  | .ok h_buf_1 =>
  .ok h_buf_1


theorem compress_s_avx_src_eq_proK (h : List UInt32) (h_off : Nat) (block : Bytes) (block_off : Nat) (iv : List UInt32) (iv_off : Nat)
    (t : M128i) : compress_s_avx_src h h_off block block_off iv iv_off t = compress_s_avx_proK h h_off block block_off iv iv_off t := by
  kernel_rfl

theorem G1_tie (b r1 r2 r3 r4 : M128i) :
    toRows (compress_s_avx_G1_src b r1 r2 r3 r4) = AvxS.G1 avxsRots (toRows (r1, r2, r3, r4)) (to4 b) := by
  simp only [compress_s_avx_G1_src, compress_s_avx_G_rotate16_epi32_rotate12_epi32_src, toRows, AvxS.G1, AvxS.G, to4_add, to4_xor,
    to4_rotate16, to4_rotate12]
theorem G2_tie (b r1 r2 r3 r4 : M128i) :
    toRows (compress_s_avx_G2_src b r1 r2 r3 r4) = AvxS.G2 avxsRots (toRows (r1, r2, r3, r4)) (to4 b) := by
  simp only [compress_s_avx_G2_src, compress_s_avx_G_rotate8_epi32_rotate7_epi32_src, toRows, AvxS.G2, AvxS.G, to4_add, to4_xor,
    to4_rotate8, to4_rotate7]
theorem DIAG_tie (r2 r3 r4 x : M128i) :
    AvxS.DIAGONALIZE (toRows (x, r2, r3, r4)) =
      some (match compress_s_avx_DIAGONALIZE_src r2 r3 r4 with | (a, b, c) => toRows (x, a, b, c)) := by
  simp only [compress_s_avx_DIAGONALIZE_src, toRows, to4_shuffle_epi32]
  rfl
theorem UNDIAG_tie (r2 r3 r4 x : M128i) :
    AvxS.UNDIAGONALIZE (toRows (x, r2, r3, r4)) =
      some (match compress_s_avx_UNDIAGONALIZE_src r2 r3 r4 with | (a, b, c) => toRows (x, a, b, c)) := by
  simp only [compress_s_avx_UNDIAGONALIZE_src, toRows, to4_shuffle_epi32]
  rfl

theorem ROUND_tie (ld : R4) (rows : R4) :
    AvxS.ROUND avxsRots (toRows rows) (toL ld) =
      some (toRows (match rows with | (r1, r2, r3, r4) => compress_s_avx_ROUND_src ld r1 r2 r3 r4)) := by
  obtain ⟨b0, b1, b2, b3⟩ := ld
  obtain ⟨r1, r2, r3, r4⟩ := rows
  simp only [compress_s_avx_ROUND_src, toL, AvxS.ROUND]
  rw [← G1_tie]
  generalize compress_s_avx_G1_src b0 r1 r2 r3 r4 = p1
  obtain ⟨a1, a2, a3, a4⟩ := p1
  rw [← G2_tie]
  generalize compress_s_avx_G2_src b1 a1 a2 a3 a4 = p2
  obtain ⟨c1, c2, c3, c4⟩ := p2
  rw [DIAG_tie]
  generalize compress_s_avx_DIAGONALIZE_src c2 c3 c4 = p3
  obtain ⟨d2, d3, d4⟩ := p3
  dsimp only
  rw [← G1_tie]
  generalize compress_s_avx_G1_src b2 c1 d2 d3 d4 = p4
  obtain ⟨e1, e2, e3, e4⟩ := p4
  rw [← G2_tie]
  generalize compress_s_avx_G2_src b3 e1 e2 e3 e4 = p5
  obtain ⟨f1, f2, f3, f4⟩ := p5
  rw [UNDIAG_tie]

def LoadTie (ld : LoadF) (r : Nat) : Prop :=
  ∀ m0 m1 m2 m3 : M128i, AvxS.load [to4 m0, to4 m1, to4 m2, to4 m3] r = some (toL (ld m0 m1 m2 m3))

theorem load0_tie : LoadTie compress_s_avx_load0_src 0 := by
  intro m0 m1 m2 m3
  simp only [compress_s_avx_load0_src, toL, to4_unpacklo64, to4_unpackhi64, to4_unpacklo32, to4_unpackhi32, to4_shuffle_epi32,
    to4_shuffle_ps, _mm_castps_si128, _mm_castsi128_ps, to4_slli4, to4_slli8, to4_slli12, to4_srli4, to4_srli12, to4_shufflehi78,
    to4_blend3, to4_blend12, to4_blend15, to4_blend48, to4_blend51, to4_blend60, to4_blend192, to4_blend240]
  rfl
theorem load1_tie : LoadTie compress_s_avx_load1_src 1 := by
  intro m0 m1 m2 m3
  simp only [compress_s_avx_load1_src, toL, to4_unpacklo64, to4_unpackhi64, to4_unpacklo32, to4_unpackhi32, to4_shuffle_epi32,
    to4_shuffle_ps, _mm_castps_si128, _mm_castsi128_ps, to4_slli4, to4_slli8, to4_slli12, to4_srli4, to4_srli12, to4_shufflehi78,
    to4_blend3, to4_blend12, to4_blend15, to4_blend48, to4_blend51, to4_blend60, to4_blend192, to4_blend240]
  rfl
theorem load2_tie : LoadTie compress_s_avx_load2_src 2 := by
  intro m0 m1 m2 m3
  simp only [compress_s_avx_load2_src, toL, to4_unpacklo64, to4_unpackhi64, to4_unpacklo32, to4_unpackhi32, to4_shuffle_epi32,
    to4_shuffle_ps, _mm_castps_si128, _mm_castsi128_ps, to4_slli4, to4_slli8, to4_slli12, to4_srli4, to4_srli12, to4_shufflehi78,
    to4_blend3, to4_blend12, to4_blend15, to4_blend48, to4_blend51, to4_blend60, to4_blend192, to4_blend240]
  rfl
theorem load3_tie : LoadTie compress_s_avx_load3_src 3 := by
  intro m0 m1 m2 m3
  simp only [compress_s_avx_load3_src, toL, to4_unpacklo64, to4_unpackhi64, to4_unpacklo32, to4_unpackhi32, to4_shuffle_epi32,
    to4_shuffle_ps, _mm_castps_si128, _mm_castsi128_ps, to4_slli4, to4_slli8, to4_slli12, to4_srli4, to4_srli12, to4_shufflehi78,
    to4_blend3, to4_blend12, to4_blend15, to4_blend48, to4_blend51, to4_blend60, to4_blend192, to4_blend240]
  rfl
theorem load4_tie : LoadTie compress_s_avx_load4_src 4 := by
  intro m0 m1 m2 m3
  simp only [compress_s_avx_load4_src, toL, to4_unpacklo64, to4_unpackhi64, to4_unpacklo32, to4_unpackhi32, to4_shuffle_epi32,
    to4_shuffle_ps, _mm_castps_si128, _mm_castsi128_ps, to4_slli4, to4_slli8, to4_slli12, to4_srli4, to4_srli12, to4_shufflehi78,
    to4_blend3, to4_blend12, to4_blend15, to4_blend48, to4_blend51, to4_blend60, to4_blend192, to4_blend240]
  rfl
theorem load5_tie : LoadTie compress_s_avx_load5_src 5 := by
  intro m0 m1 m2 m3
  simp only [compress_s_avx_load5_src, toL, to4_unpacklo64, to4_unpackhi64, to4_unpacklo32, to4_unpackhi32, to4_shuffle_epi32,
    to4_shuffle_ps, _mm_castps_si128, _mm_castsi128_ps, to4_slli4, to4_slli8, to4_slli12, to4_srli4, to4_srli12, to4_shufflehi78,
    to4_blend3, to4_blend12, to4_blend15, to4_blend48, to4_blend51, to4_blend60, to4_blend192, to4_blend240]
  rfl
theorem load6_tie : LoadTie compress_s_avx_load6_src 6 := by
  intro m0 m1 m2 m3
  simp only [compress_s_avx_load6_src, toL, to4_unpacklo64, to4_unpackhi64, to4_unpacklo32, to4_unpackhi32, to4_shuffle_epi32,
    to4_shuffle_ps, _mm_castps_si128, _mm_castsi128_ps, to4_slli4, to4_slli8, to4_slli12, to4_srli4, to4_srli12, to4_shufflehi78,
    to4_blend3, to4_blend12, to4_blend15, to4_blend48, to4_blend51, to4_blend60, to4_blend192, to4_blend240]
  rfl
theorem load7_tie : LoadTie compress_s_avx_load7_src 7 := by
  intro m0 m1 m2 m3
  simp only [compress_s_avx_load7_src, toL, to4_unpacklo64, to4_unpackhi64, to4_unpacklo32, to4_unpackhi32, to4_shuffle_epi32,
    to4_shuffle_ps, _mm_castps_si128, _mm_castsi128_ps, to4_slli4, to4_slli8, to4_slli12, to4_srli4, to4_srli12, to4_shufflehi78,
    to4_blend3, to4_blend12, to4_blend15, to4_blend48, to4_blend51, to4_blend60, to4_blend192, to4_blend240]
  rfl
theorem load8_tie : LoadTie compress_s_avx_load8_src 8 := by
  intro m0 m1 m2 m3
  simp only [compress_s_avx_load8_src, toL, to4_unpacklo64, to4_unpackhi64, to4_unpacklo32, to4_unpackhi32, to4_shuffle_epi32,
    to4_shuffle_ps, _mm_castps_si128, _mm_castsi128_ps, to4_slli4, to4_slli8, to4_slli12, to4_srli4, to4_srli12, to4_shufflehi78,
    to4_blend3, to4_blend12, to4_blend15, to4_blend48, to4_blend51, to4_blend60, to4_blend192, to4_blend240]
  rfl
theorem load9_tie : LoadTie compress_s_avx_load9_src 9 := by
  intro m0 m1 m2 m3
  simp only [compress_s_avx_load9_src, toL, to4_unpacklo64, to4_unpackhi64, to4_unpacklo32, to4_unpackhi32, to4_shuffle_epi32,
    to4_shuffle_ps, _mm_castps_si128, _mm_castsi128_ps, to4_slli4, to4_slli8, to4_slli12, to4_srli4, to4_srli12, to4_shufflehi78,
    to4_blend3, to4_blend12, to4_blend15, to4_blend48, to4_blend51, to4_blend60, to4_blend192, to4_blend240]
  rfl

/-! ### the fold, memory, and the whole function -/

theorem roundsKS_spec (m0 m1 m2 m3 : M128i) :
    ∀ (lds : List (LoadF × Nat)), (∀ p ∈ lds, LoadTie p.1 p.2) → ∀ (rows : R4),
      ∃ rows', (∀ {R : Type} (k : R4 → R), roundsKS m0 m1 m2 m3 (lds.map Prod.fst) rows k = k rows') ∧
        AvxS.rounds avxsRots [to4 m0, to4 m1, to4 m2, to4 m3] (toRows rows) (lds.map Prod.snd) = some (toRows rows') := by
  intro lds
  induction lds with
  | nil => intro _ rows; exact ⟨rows, fun _ => rfl, rfl⟩
  | cons p rest ih =>
    intro hp rows
    obtain ⟨ld, r⟩ := p
    have hld : LoadTie ld r := hp (ld, r) (by simp)
    obtain ⟨r1, r2, r3, r4⟩ := rows
    have hR := ROUND_tie (ld m0 m1 m2 m3) (r1, r2, r3, r4)
    dsimp only at hR
    generalize hq : compress_s_avx_ROUND_src (ld m0 m1 m2 m3) r1 r2 r3 r4 = q at hR
    obtain ⟨a, b, c, d⟩ := q
    obtain ⟨rows', h1, h2⟩ := ih (fun p hp' => hp p (by simp [hp'])) (a, b, c, d)
    refine ⟨rows', ?_, ?_⟩
    · intro R k
      simp only [List.map_cons, roundsKS, hq]
      exact h1 k
    · simp only [List.map_cons, AvxS.rounds, hld m0 m1 m2 m3, hR]
      exact h2

def loadsS : List (LoadF × Nat) :=
  [(compress_s_avx_load0_src, 0), (compress_s_avx_load1_src, 1), (compress_s_avx_load2_src, 2), (compress_s_avx_load3_src, 3),
   (compress_s_avx_load4_src, 4), (compress_s_avx_load5_src, 5), (compress_s_avx_load6_src, 6), (compress_s_avx_load7_src, 7),
   (compress_s_avx_load8_src, 8), (compress_s_avx_load9_src, 9)]

theorem loadsS_tie : ∀ p ∈ loadsS, LoadTie p.1 p.2 := by
  intro p hp
  simp only [loadsS, List.mem_cons, List.mem_nil_iff, or_false] at hp
  rcases hp with h | h | h | h | h | h | h | h | h | h <;> subst h
  exacts [load0_tie, load1_tie, load2_tie, load3_tie, load4_tie, load5_tie, load6_tie, load7_tie, load8_tie, load9_tie]

theorem loadsS_rounds : loadsS.map Prod.snd = Extracted.Simd.S_AVX_ROUNDS := by decide

theorem ld32_fromLE (b : Bytes) (o : Nat) : ld32 b o = (fromLE ((b.drop o).take 4) : UInt32) := by
  rw [ld32_eq]
  show UInt32.ofNat (leNat (((b.drop o).take 4).take 4)) = UInt32.ofNat (leNat ((b.drop o).take 4))
  rw [List.take_take, Nat.min_self]

theorem msg_eq (b : Bytes) :
    AvxS.msgVecs (loadWords b) = [to4 (AvxBI.vec b 0), to4 (AvxBI.vec b 16), to4 (AvxBI.vec b 32), to4 (AvxBI.vec b 48)] := by
  simp only [AvxS.msgVecs, loadWords, Vector.getElem_ofFn, to4, AvxBI.vec, ld32_fromLE]
  rfl

theorem model_eq (h iv : Vector UInt32 8) (block : Bytes) (t : V4x32) (s' : AvxS.Rows)
    (hr : AvxS.rounds ⟨fun r => (AvxS.rotate7_epi32 r).getD r, fun r => (AvxS.rotate12_epi32 r).getD r⟩ (AvxS.msgVecs (loadWords block))
      ⟨⟨h[0], h[1], h[2], h[3]⟩, ⟨h[4], h[5], h[6], h[7]⟩, ⟨iv[0], iv[1], iv[2], iv[3]⟩, V4x32.xor ⟨iv[4], iv[5], iv[6], iv[7]⟩ t⟩
      Extracted.Simd.S_AVX_ROUNDS = some s') :
    AvxS.compress_s_avx h block iv t = some #v[
      (V4x32.xor ⟨h[0], h[1], h[2], h[3]⟩ (s'.row1.xor s'.row3)).l0, (V4x32.xor ⟨h[0], h[1], h[2], h[3]⟩ (s'.row1.xor s'.row3)).l1,
      (V4x32.xor ⟨h[0], h[1], h[2], h[3]⟩ (s'.row1.xor s'.row3)).l2, (V4x32.xor ⟨h[0], h[1], h[2], h[3]⟩ (s'.row1.xor s'.row3)).l3,
      (V4x32.xor ⟨h[4], h[5], h[6], h[7]⟩ (s'.row2.xor s'.row4)).l0, (V4x32.xor ⟨h[4], h[5], h[6], h[7]⟩ (s'.row2.xor s'.row4)).l1,
      (V4x32.xor ⟨h[4], h[5], h[6], h[7]⟩ (s'.row2.xor s'.row4)).l2, (V4x32.xor ⟨h[4], h[5], h[6], h[7]⟩ (s'.row2.xor s'.row4)).l3] := by
  unfold AvxS.compress_s_avx
  rw [avxs_rotate7, avxs_rotate12]
  simp only [hr]

set_option maxRecDepth 4000 in
/-- **`compress_s_avx`** of the translated source = the model -/
theorem compress_s_avx_src_eq_model (h0 h1 h2 h3 h4 h5 h6 h7 i0 i1 i2 i3 i4 i5 i6 i7 : UInt32) (block : Bytes)
    (hb : 64 ≤ block.length) (t : M128i) :
    ∃ out : Vector UInt32 8,
      AvxS.compress_s_avx #v[h0, h1, h2, h3, h4, h5, h6, h7] block #v[i0, i1, i2, i3, i4, i5, i6, i7] (to4 t) = some out ∧
      compress_s_avx_src [h0, h1, h2, h3, h4, h5, h6, h7] 0 block 0 [i0, i1, i2, i3, i4, i5, i6, i7] 0 t = .ok out.toList := by
  rw [compress_s_avx_src_eq_proK]
  unfold compress_s_avx_proK
  simp only [Nat.zero_add, AvxBI.loadu_vec block 0 (by omega), AvxBI.loadu_vec block 16 (by omega), AvxBI.loadu_vec block 32 (by omega),
    AvxBI.loadu_vec block 48 (by omega)]
  have hl0 : _mm_load_si128_u32 [h0, h1, h2, h3, h4, h5, h6, h7] 0 = .ok ⟨h0, h1, h2, h3⟩ := rfl
  have hl1 : _mm_load_si128_u32 [h0, h1, h2, h3, h4, h5, h6, h7] 16 = .ok ⟨h4, h5, h6, h7⟩ := rfl
  have il0 : _mm_loadu_si128_u32 [i0, i1, i2, i3, i4, i5, i6, i7] 0 = .ok ⟨i0, i1, i2, i3⟩ := rfl
  have il1 : _mm_loadu_si128_u32 [i0, i1, i2, i3, i4, i5, i6, i7] 16 = .ok ⟨i4, i5, i6, i7⟩ := rfl
  simp only [hl0, hl1, il0, il1]
  obtain ⟨rows', hk, hm⟩ := roundsKS_spec (AvxBI.vec block 0) (AvxBI.vec block 16) (AvxBI.vec block 32) (AvxBI.vec block 48) loadsS loadsS_tie
    (⟨h0, h1, h2, h3⟩, ⟨h4, h5, h6, h7⟩, ⟨i0, i1, i2, i3⟩, _mm_xor_si128 ⟨i4, i5, i6, i7⟩ t)
  rw [loadsS_rounds] at hm
  have hfst : loadsS.map Prod.fst = [compress_s_avx_load0_src, compress_s_avx_load1_src, compress_s_avx_load2_src,
      compress_s_avx_load3_src, compress_s_avx_load4_src, compress_s_avx_load5_src, compress_s_avx_load6_src,
      compress_s_avx_load7_src, compress_s_avx_load8_src, compress_s_avx_load9_src] := rfl
  rw [hfst] at hk
  rw [hk]
  obtain ⟨a, b, c, d⟩ := rows'
  dsimp only
  have hr : AvxS.rounds ⟨fun r => (AvxS.rotate7_epi32 r).getD r, fun r => (AvxS.rotate12_epi32 r).getD r⟩ (AvxS.msgVecs (loadWords block))
      ⟨⟨h0, h1, h2, h3⟩, ⟨h4, h5, h6, h7⟩, ⟨i0, i1, i2, i3⟩, V4x32.xor ⟨i4, i5, i6, i7⟩ (to4 t)⟩
      Extracted.Simd.S_AVX_ROUNDS = some (toRows (a, b, c, d)) := by
    rw [msg_eq block]
    exact hm
  have hmod := model_eq #v[h0, h1, h2, h3, h4, h5, h6, h7] #v[i0, i1, i2, i3, i4, i5, i6, i7] block (to4 t) _ hr
  exact ⟨_, hmod, rfl⟩
theorem s_IV_eq : Impl.Blake2.s.iv = #v[0x6a09e667, 0xbb67ae85, 0x3c6ef372, 0xa54ff53a, 0x510e527f, 0x9b05688c, 0x1f83d9ab, 0x5be0cd19] := by decide

/-- **`avx::compress_s`** of the translated source = the model `avx_compress_s` -/
theorem compress_s_src_eq_model (h0 h1 h2 h3 h4 h5 h6 h7 t0 t1 : UInt32) (buf : Bytes) (hb : 64 ≤ buf.length) (last : LastBlock) :
    ∃ out : Vector UInt32 8, avx_compress_s #v[h0, h1, h2, h3, h4, h5, h6, h7] t0.toNat t1.toNat buf last = some out ∧
      compress_s_src [h0, h1, h2, h3, h4, h5, h6, h7] [t0, t1] buf last = .ok out.toList := by
  obtain ⟨out, hm, hs⟩ := compress_s_avx_src_eq_model h0 h1 h2 h3 h4 h5 h6 h7 0x6a09e667 0xbb67ae85 0x3c6ef372 0xa54ff53a 0x510e527f
    0x9b05688c 0x1f83d9ab 0x5be0cd19 buf hb
    (if last = LastBlock.Yes then _mm_set_epi32 0 0xffffffff t1 t0 else _mm_set_epi32 0 0 t1 t0)
  refine ⟨out, ?_, ?_⟩
  · unfold avx_compress_s
    rw [s_IV_eq]
    simp only [UInt32.ofNat_toNat]
    rw [← hm]
    congr 1
    cases last <;> rfl
  · unfold compress_s_src
    have hiv : s_IV = [0x6a09e667, 0xbb67ae85, 0x3c6ef372, 0xa54ff53a, 0x510e527f, 0x9b05688c, 0x1f83d9ab, 0x5be0cd19] := rfl
    rw [hiv]
    cases last
    · simp only [if_true, Glue.index] at hs ⊢
      dsimp only [List.getElem?_cons_succ, List.getElem?_cons_zero]
      rw [hs]
    · simp only [if_false, Glue.index, reduceCtorEq] at hs ⊢
      dsimp only [List.getElem?_cons_succ, List.getElem?_cons_zero]
      rw [hs]

end Cx.Proofs.GlueSimdBlake2.AvxSI
