/-
  Proofs.MacLegacy — the macro-generated legacy digest wrappers (`struct $name { ctx, computed }`) satisfy the object
  contract of Proofs.MacObj as soon as the wrapped context type refines "bytes since the last reset" (`CtxContract`,
  the shape of `Proofs.HashProg.Refines` restricted to the three methods a wrapper calls).  Core Lean only.
-/
import CxVerif.Impl.Digest
import CxVerif.Proofs.MacObj
namespace Cx.Proofs.MacLegacy
open Cx Cx.Impl.Digest Cx.Proofs.MacObj

/-- what a wrapper needs of its context type: `R c m` = "context `c` has absorbed exactly `m` since new / reset" -/
structure CtxContract {γ : Type} (M : CtxModel γ) (H : Fn) (R : γ → Bytes → Prop) (ok : Bytes → Prop) : Prop where
  new : R M.new []
  update_mut : ∀ c m b, R c m → ∃ c', M.update_mut c b = some c' ∧ R c' (m ++ b)
  reset : ∀ c m, R c m → R (M.reset c) []
  finalize_reset : ∀ c m, R c m → ok m → ∃ c', M.finalize_reset c = some (c', H m) ∧ R c' []
  /-- the digest has the length the wrapper reports: `output_bytes() = (OUTPUT_BITS + 7) / 8` -/
  out_len : ∀ m, ok m → (H m).length = (M.OUTPUT_BITS + 7) / 8

section
variable {γ : Type} (M : CtxModel γ) (H : Fn) (R : γ → Bytes → Prop)

/-- not yet computed, the context holds `m` -/
def RelL (s : Legacy γ) (f : Fn) (m : Bytes) : Prop := f = H ∧ s.computed = false ∧ R s.ctx m
/-- computed (the context has been `finalize_reset`) -/
def FinL (s : Legacy γ) (f : Fn) : Prop := f = H ∧ s.computed = true ∧ ∃ m, R s.ctx m

def outBytes : Nat := (M.OUTPUT_BITS + 7) / 8
def sizesOf : List Nat := [outBytes M, M.OUTPUT_BITS, M.BLOCK_BYTES]

theorem legacy_contract {ok : Bytes → Prop} (h : CtxContract M H R ok) :
    Contract (digestFam (legacyDigest M)) (outBytes M) (sizesOf M) (fun _ => none) (fun _ m => ok m)
      (RelL H R) (FinL H R) where
  input := by
    rintro s f m b ⟨rfl, hc, hr⟩
    obtain ⟨c', e, hr'⟩ := h.update_mut s.ctx m b hr
    exact ⟨{ s with ctx := c' }, by simp [digestFam, legacyDigest, Legacy.input, hc, e], rfl, hc, hr'⟩
  raw_result := by
    rintro s f m ⟨rfl, hc, hr⟩ hok
    obtain ⟨c', e, hr'⟩ := h.finalize_reset s.ctx m hr hok
    refine ⟨{ ctx := c', computed := true }, ?_, rfl, rfl, [], hr'⟩
    simp [digestFam, legacyDigest, Legacy.result, hc, e, h.out_len m hok, outBytes]
  raw_bad := by
    rintro s f m n ⟨rfl, hc, hr⟩ hok hn
    obtain ⟨c', e, _⟩ := h.finalize_reset s.ctx m hr hok
    simp [digestFam, legacyDigest, Legacy.result, hc, e, h.out_len m hok]
    exact hn
  result := by
    rintro s f m ⟨rfl, hc, hr⟩ hok
    obtain ⟨c', e, hr'⟩ := h.finalize_reset s.ctx m hr hok
    refine ⟨{ ctx := c', computed := true }, ?_, rfl, rfl, [], hr'⟩
    simp [digestFam, legacyDigest, Legacy.result, hc, e, h.out_len m hok, DigestModel.output_bytes, Legacy.output_bits]
  reset := by
    rintro s f m ⟨rfl, _, hr⟩
    exact ⟨Legacy.reset M s, rfl, rfl, rfl, h.reset s.ctx m hr⟩
  reset_fin := by
    rintro s f ⟨rfl, _, m, hr⟩
    exact ⟨Legacy.reset M s, rfl, rfl, rfl, h.reset s.ctx m hr⟩
  rekey := by intro s f m k f' _ hk; cases hk
  rekey_fin := by intro s f k f' _ hk; cases hk
  rekey_bad := by intros; rfl
  rekey_bad_fin := by intros; rfl
  fin_input := by
    rintro s f b ⟨rfl, hc, _⟩
    simp [digestFam, legacyDigest, Legacy.input, hc]
  fin_result := by
    rintro s f ⟨rfl, hc, _⟩
    simp [digestFam, legacyDigest, Legacy.result, hc]
  fin_raw := by
    rintro s f n ⟨rfl, hc, _⟩
    simp [digestFam, legacyDigest, Legacy.result, hc]
  out_rel := by intros; rfl
  out_fin := by intros; rfl
  sizes_rel := by intros; rfl
  sizes_fin := by intros; rfl
  len := by
    rintro s f m ⟨rfl, _, _⟩ hok
    exact h.out_len m hok

/-- the freshly constructed wrapper `X::new()` -/
theorem legacy_new {ok : Bytes → Prop} (h : CtxContract M H R ok) : RelL H R (Legacy.new M) H [] :=
  ⟨rfl, rfl, h.new⟩

end
end Cx.Proofs.MacLegacy
