/-
  Proofs.Scalar32Reduce — ref10 `sc_reduce` as modelled by `Impl.Scalar32.reduce_from_wide_bytes`:
  for EVERY 64-byte string the 24 loads denote the radix-2^21 digits of the little-endian integer, no checked i64
  operation of the 130 multiply-accumulates / 70 carries overflows (`reduce_limbs_spec`, Scalar32ReduceB), the twelve
  result limbs are fully carried with value `le(s) mod L` in `[0, L)`, and `pack` writes its 32 little-endian bytes.
    * `getD_toNat_eq`, `load_3_val`, `load_4_val`: byte o of a string / the 3- and 4-byte loads as bit windows of `leNat`
    * `lin24_digits`: recomposition of a number from its 24 digits
    * `val12_eq_mod`: a value in [0, L) congruent to N modulo L is N mod L
    * `reduce_from_wide_bytes_spec`: the theorem
-/
import CxVerif.Proofs.Scalar32ReduceB
import CxVerif.Proofs.Scalar32ReduceC
import CxVerif.Proofs.Fe32FromBytes
import CxVerif.Proofs.Scalar64Bytes
namespace Cx.Proofs.Scalar32
open Cx Cx.Impl.Scalar32
open Cx.Impl.Fe32 (shl64 shr wrap64 u8of u8or)
set_option exponentiation.threshold 600

theorem getD_toNat_eq : ∀ (l : Bytes) (o : Nat), (l.getD o 0).toNat = leNat l / 256^o % 256
  | [], o => by simp [leNat]
  | b :: t, 0 => by
    have := b.toNat_lt
    simp only [List.getD_cons_zero, leNat, Nat.pow_zero, Nat.div_one]; omega
  | b :: t, o + 1 => by
    have hb := b.toNat_lt
    simp only [List.getD_cons_succ, leNat]
    rw [getD_toNat_eq t o, Nat.pow_succ, Nat.mul_comm (256^o) 256, ← Nat.div_div_eq_div_mul]
    have : (b.toNat + 256 * leNat t) / 256 = leNat t := by omega
    rw [this]

theorem div_pow1 (N o : Nat) : N / 256^(o + 1) = N / 256^o / 256 := by
  rw [Nat.pow_succ, Nat.div_div_eq_div_mul]
theorem div_pow2 (N o : Nat) : N / 256^(o + 2) = N / 256^o / 65536 := by
  rw [show o + 2 = (o + 1) + 1 from rfl, div_pow1, div_pow1, Nat.div_div_eq_div_mul]
theorem div_pow3 (N o : Nat) : N / 256^(o + 3) = N / 256^o / 16777216 := by
  rw [show o + 3 = (o + 2) + 1 from rfl, div_pow1, div_pow2, Nat.div_div_eq_div_mul]

theorem load_3_val {n} (s : Vector UInt8 n) (o : Nat) :
    load_3 s o = ((leNat s.toList / 256^o % 2^24 : Nat) : Int) := by
  unfold load_3
  have h0 := (s.toList.getD o 0).toNat_lt
  have h1 := (s.toList.getD (o + 1) 0).toNat_lt
  have h2 := (s.toList.getD (o + 2) 0).toNat_lt
  rw [Cx.Proofs.Fe32.load3_sum _ _ _ h0 h1 h2, getD_toNat_eq, getD_toNat_eq, getD_toNat_eq]
  rw [div_pow1, div_pow2]
  generalize leNat s.toList / 256^o = M
  congr 1
  omega

theorem load_4_val {n} (s : Vector UInt8 n) (o : Nat) :
    load_4 s o = ((leNat s.toList / 256^o % 2^32 : Nat) : Int) := by
  unfold load_4
  have h0 := (s.toList.getD o 0).toNat_lt
  have h1 := (s.toList.getD (o + 1) 0).toNat_lt
  have h2 := (s.toList.getD (o + 2) 0).toNat_lt
  have h3 := (s.toList.getD (o + 3) 0).toNat_lt
  rw [Cx.Proofs.Fe32.load4_sum _ _ _ _ h0 h1 h2 h3, getD_toNat_eq, getD_toNat_eq, getD_toNat_eq, getD_toNat_eq]
  rw [div_pow1, div_pow2, div_pow3]
  generalize leNat s.toList / 256^o = M
  congr 1
  omega

/-- recomposition of a number below 2^512 from its 24 radix-2^21 digits -/
theorem lin24_digits (N : Nat) :
    lin24 ((N % 2^21 : Nat) : Int) ((N / 2^21 % 2^21 : Nat) : Int) ((N / 2^42 % 2^21 : Nat) : Int) ((N / 2^63 % 2^21 : Nat) : Int)
      ((N / 2^84 % 2^21 : Nat) : Int) ((N / 2^105 % 2^21 : Nat) : Int) ((N / 2^126 % 2^21 : Nat) : Int) ((N / 2^147 % 2^21 : Nat) : Int)
      ((N / 2^168 % 2^21 : Nat) : Int) ((N / 2^189 % 2^21 : Nat) : Int) ((N / 2^210 % 2^21 : Nat) : Int) ((N / 2^231 % 2^21 : Nat) : Int)
      ((N / 2^252 % 2^21 : Nat) : Int) ((N / 2^273 % 2^21 : Nat) : Int) ((N / 2^294 % 2^21 : Nat) : Int) ((N / 2^315 % 2^21 : Nat) : Int)
      ((N / 2^336 % 2^21 : Nat) : Int) ((N / 2^357 % 2^21 : Nat) : Int) ((N / 2^378 % 2^21 : Nat) : Int) ((N / 2^399 % 2^21 : Nat) : Int)
      ((N / 2^420 % 2^21 : Nat) : Int) ((N / 2^441 % 2^21 : Nat) : Int) ((N / 2^462 % 2^21 : Nat) : Int) ((N / 2^483 : Nat) : Int)
      = (N : Int) := by
  unfold lin24
  omega

/-- a representative in `[0, L)` that differs from `N` by a multiple of `L` is `N mod L` -/
theorem val12_eq_mod (v q : Int) (N : Nat) (hv : v = (N : Int) - LI * q) (hr : 0 ≤ v ∧ v < LI) :
    v.toNat = N % Spec.ScalarL.L := by
  have hL : (Spec.ScalarL.L : Int) = LI := LI_eq.symm
  have h1 : v = ((N % Spec.ScalarL.L : Nat) : Int) := by
    rw [Int.natCast_mod, hL]
    unfold LI at *
    omega
  rw [h1]; rfl

/-- **sc_reduce**: for every 64-byte string, no overflow, and the result bytes are the 32-byte little-endian encoding
    of `le(s) mod L` -/
theorem reduce_from_wide_bytes_spec (s : Vector UInt8 64) :
    (reduce_from_wide_bytes s).map to_bytes = some (Spec.ScalarL.reduceWide s.toList) := by
  unfold reduce_from_wide_bytes Spec.ScalarL.reduceWide Spec.ScalarL.encode Spec.ScalarL.decode
  simp only [load_3_val, load_4_val]
  have hN : leNat s.toList < 2^512 := by
    have := Cx.Proofs.Scalar64.leNat_lt s.toList
    simpa using this
  generalize leNat s.toList = N at hN ⊢
  rw [wlimb0 N, wlimb1 N, wlimb2 N, wlimb3 N, wlimb4 N, wlimb5 N, wlimb6 N, wlimb7 N, wlimb8 N, wlimb9 N, wlimb10 N, wlimb11 N, wlimb12 N, wlimb13 N, wlimb14 N, wlimb15 N, wlimb16 N, wlimb17 N, wlimb18 N, wlimb19 N, wlimb20 N, wlimb21 N, wlimb22 N, wlimb23 N hN]
  obtain ⟨t, q, ht, hd, hv, hr⟩ := reduce_limbs_spec ((N % 2^21 : Nat) : Int) ((N / 2^21 % 2^21 : Nat) : Int) ((N / 2^42 % 2^21 : Nat) : Int) ((N / 2^63 % 2^21 : Nat) : Int) ((N / 2^84 % 2^21 : Nat) : Int) ((N / 2^105 % 2^21 : Nat) : Int) ((N / 2^126 % 2^21 : Nat) : Int) ((N / 2^147 % 2^21 : Nat) : Int) ((N / 2^168 % 2^21 : Nat) : Int) ((N / 2^189 % 2^21 : Nat) : Int) ((N / 2^210 % 2^21 : Nat) : Int) ((N / 2^231 % 2^21 : Nat) : Int) ((N / 2^252 % 2^21 : Nat) : Int) ((N / 2^273 % 2^21 : Nat) : Int) ((N / 2^294 % 2^21 : Nat) : Int) ((N / 2^315 % 2^21 : Nat) : Int) ((N / 2^336 % 2^21 : Nat) : Int) ((N / 2^357 % 2^21 : Nat) : Int) ((N / 2^378 % 2^21 : Nat) : Int) ((N / 2^399 % 2^21 : Nat) : Int) ((N / 2^420 % 2^21 : Nat) : Int) ((N / 2^441 % 2^21 : Nat) : Int) ((N / 2^462 % 2^21 : Nat) : Int) ((N / 2^483 : Nat) : Int) (by omega)
  rw [lin24_digits] at hv
  rw [ht]
  simp only [Cx.Proofs.Fe32.some_bind, Cx.Proofs.Fe32.pure_eq_some, Option.map_some]
  unfold to_bytes
  rw [pack_spec t hd, val12_eq_mod _ q N hv hr]

end Cx.Proofs.Scalar32
