/-
  Proofs.StreamLayout — ChaCha state layouts: `init` of each engine model = the Spec's initial state, for every
  (key length, nonce length); constant tables; the 16-byte-key defect of the portable engine.
-/
import CxVerif.Proofs.StreamSse2
namespace Cx.Proofs.ChaCha
open Cx Cx.Impl Cx.Impl.ChaCha Cx.Spec.Stream
set_option linter.unusedSimpArgs false
set_option linter.unusedVariables false

theorem word_eq_read (bs : Bytes) (j : Nat) : word bs j = read_u32_le bs (4 * j) := by
  simp [word, read_u32_le, leU32, List.take_take]

theorem read_append_left (a b : Bytes) (i : Nat) (h : i + 4 ≤ a.length) :
    read_u32_le (a ++ b) i = read_u32_le a i := by
  unfold read_u32_le
  rw [List.drop_append_of_le_length (by omega), List.take_append_of_le_length (by simp; omega)]

theorem read_append_right (a b : Bytes) (i : Nat) :
    read_u32_le (a ++ b) (a.length + i) = read_u32_le b i := by
  unfold read_u32_le
  have : List.drop (a.length + i) (a ++ b) = List.drop i b := by simp [List.drop_append]
  rw [this]

theorem read_take (a : Bytes) (n i : Nat) (h : i + 4 ≤ n) : read_u32_le (a.take n) i = read_u32_le a i := by
  unfold read_u32_le
  rw [List.drop_take, List.take_take]
  congr 2; omega

theorem read_drop (a : Bytes) (n i : Nat) : read_u32_le (a.drop n) i = read_u32_le a (n + i) := by
  unfold read_u32_le
  rw [List.drop_drop]

/-! ### constant tables (re-extracted from /repo on every run) -/

theorem cst32_reference : Reference.CST32 =
    (word Spec.ChaCha.sigma 0, word Spec.ChaCha.sigma 1, word Spec.ChaCha.sigma 2, word Spec.ChaCha.sigma 3) := by decide
theorem cst16_reference : Reference.CST16 =
    (word Spec.ChaCha.tau 0, word Spec.ChaCha.tau 1, word Spec.ChaCha.tau 2, word Spec.ChaCha.tau 3) := by decide
theorem cst32_sse2 : Sse2.CST32 =
    (word Spec.ChaCha.sigma 0, word Spec.ChaCha.sigma 1, word Spec.ChaCha.sigma 2, word Spec.ChaCha.sigma 3) := by decide
theorem cst16_sse2 : Sse2.CST16 =
    (word Spec.ChaCha.tau 0, word Spec.ChaCha.tau 1, word Spec.ChaCha.tau 2, word Spec.ChaCha.tau 3) := by decide

/-! ### key rows -/

theorem dup_lo (key : Bytes) (hk : key.length = 16) (i : Nat) (h : i + 4 ≤ 16) :
    read_u32_le (key ++ key) i = read_u32_le key i := read_append_left key key i (by omega)
theorem dup_hi (key : Bytes) (hk : key.length = 16) (i : Nat) :
    read_u32_le (key ++ key) (16 + i) = read_u32_le key i := by rw [← hk, read_append_right]

/-- the first three rows of the Spec state in `read_u32_le` form, 32-byte key -/
theorem initState_32 (key : Bytes) (hk : key.length = 32) (a b c d : UInt32) :
    Spec.ChaCha.initState key a b c d =
      #v[word Spec.ChaCha.sigma 0, word Spec.ChaCha.sigma 1, word Spec.ChaCha.sigma 2, word Spec.ChaCha.sigma 3,
         read_u32_le key 0, read_u32_le key 4, read_u32_le key 8, read_u32_le key 12,
         read_u32_le key 16, read_u32_le key 20, read_u32_le key 24, read_u32_le key 28, a, b, c, d] := by
  simp only [Spec.ChaCha.initState, Spec.ChaCha.constants, Spec.ChaCha.keyBytes, hk, if_true]
  simp only [word_eq_read key]

/-- … 16-byte key: τ constants, the key twice -/
theorem initState_16 (key : Bytes) (hk : key.length = 16) (a b c d : UInt32) :
    Spec.ChaCha.initState key a b c d =
      #v[word Spec.ChaCha.tau 0, word Spec.ChaCha.tau 1, word Spec.ChaCha.tau 2, word Spec.ChaCha.tau 3,
         read_u32_le key 0, read_u32_le key 4, read_u32_le key 8, read_u32_le key 12,
         read_u32_le key 0, read_u32_le key 4, read_u32_le key 8, read_u32_le key 12, a, b, c, d] := by
  simp only [Spec.ChaCha.initState, Spec.ChaCha.constants, Spec.ChaCha.keyBytes, hk,
    show ¬ ((16 : Nat) = 32) by decide, if_false]
  have h0 := dup_hi key hk 0
  have h4 := dup_hi key hk 4
  have h8 := dup_hi key hk 8
  have h12 := dup_hi key hk 12
  simp only [Nat.reduceAdd] at h0 h4 h8 h12
  simp only [word_eq_read (key ++ key), Nat.reduceMul, h0, h4, h8, h12,
    dup_lo key hk 0 (by omega), dup_lo key hk 4 (by omega), dup_lo key hk 8 (by omega), dup_lo key hk 12 (by omega)]

/-- the last row by nonce length -/
theorem layout_16 (key nonce : Bytes) (hn : nonce.length = 16) : Spec.ChaCha.layoutState key nonce =
    Spec.ChaCha.initState key (read_u32_le nonce 0) (read_u32_le nonce 4) (read_u32_le nonce 8) (read_u32_le nonce 12) := by
  simp only [Spec.ChaCha.layoutState, hn, if_true, word_eq_read nonce]
theorem layout_12 (key nonce : Bytes) (hn : nonce.length = 12) : Spec.ChaCha.layoutState key nonce =
    Spec.ChaCha.initState key 0 (read_u32_le nonce 0) (read_u32_le nonce 4) (read_u32_le nonce 8) := by
  simp only [Spec.ChaCha.layoutState, hn, show ¬ ((12 : Nat) = 16) by decide, if_true, if_false,
    Spec.ChaCha.ietfState, word_eq_read nonce]
theorem layout_8 (key nonce : Bytes) (hn : nonce.length = 8) : Spec.ChaCha.layoutState key nonce =
    Spec.ChaCha.initState key 0 0 (read_u32_le nonce 0) (read_u32_le nonce 4) := by
  simp only [Spec.ChaCha.layoutState, hn, show ¬ ((8 : Nat) = 16) by decide, show ¬ ((8 : Nat) = 12) by decide, if_false,
    Spec.ChaCha.origState, word_eq_read nonce]
  rfl

def validNonce (nonce : Bytes) : Prop := nonce.length = 8 ∨ nonce.length = 12 ∨ nonce.length = 16

/-! ### `init` = Spec layout -/

/-- portable engine (repaired `init`), both key lengths, every nonce length -/
theorem reference_init (key nonce : Bytes) (hk : Spec.ChaCha.validKey key) (hn : validNonce nonce) :
    (Reference.init key nonce).map toVec = .ok (Spec.ChaCha.layoutState key nonce) := by
  rcases hk with hk | hk
  · rcases hn with hn | hn | hn
    · rw [layout_8 key nonce hn, initState_16 key hk]
      simp [Reference.init, Reference.initNonce, hk, hn, Except.map, toVec, cst16_reference, W16.zero]
    · rw [layout_12 key nonce hn, initState_16 key hk]
      simp [Reference.init, Reference.initNonce, hk, hn, Except.map, toVec, cst16_reference, W16.zero]
    · rw [layout_16 key nonce hn, initState_16 key hk]
      simp [Reference.init, Reference.initNonce, hk, hn, Except.map, toVec, cst16_reference, W16.zero]
  · rcases hn with hn | hn | hn
    · rw [layout_8 key nonce hn, initState_32 key hk]
      simp [Reference.init, Reference.initNonce, hk, hn, Except.map, toVec, cst32_reference, W16.zero]
    · rw [layout_12 key nonce hn, initState_32 key hk]
      simp [Reference.init, Reference.initNonce, hk, hn, Except.map, toVec, cst32_reference, W16.zero]
    · rw [layout_16 key nonce hn, initState_32 key hk]
      simp [Reference.init, Reference.initNonce, hk, hn, Except.map, toVec, cst32_reference, W16.zero]

/-- the pre-repair `init` agreed with the Spec for 32-byte keys only -/
theorem referenceOld_init_32 (key nonce : Bytes) (hk : key.length = 32) (hn : validNonce nonce) :
    (Reference.initOld key nonce).map toVec = .ok (Spec.ChaCha.layoutState key nonce) := by
  have : Reference.initOld key nonce = Reference.init key nonce := by simp [Reference.initOld, hk]
  rw [this]; exact reference_init key nonce (Or.inr hk) hn

/-- SSE2 engine (`key16`/`key32`/`nonce` lane loading), both key lengths, every nonce length -/
theorem sse2_init (key nonce : Bytes) (hk : Spec.ChaCha.validKey key) (hn : validNonce nonce) :
    (Sse2.init key nonce).map (fun s => toVec (toRef s)) = .ok (Spec.ChaCha.layoutState key nonce) := by
  rcases hk with hk | hk
  · rcases hn with hn | hn | hn
    · rw [layout_8 key nonce hn, initState_16 key hk]
      simp [Sse2.init, Sse2.nonce, Sse2.key16, Sse2.constant16, Sse2.ofWords, Sse2._mm_loadu_si128, hk, hn, Except.map,
        toVec, toRef, cst16_sse2]
    · rw [layout_12 key nonce hn, initState_16 key hk]
      simp [Sse2.init, Sse2.nonce, Sse2.key16, Sse2.constant16, Sse2.ofWords, Sse2._mm_loadu_si128, hk, hn, Except.map,
        toVec, toRef, cst16_sse2]
    · rw [layout_16 key nonce hn, initState_16 key hk]
      simp [Sse2.init, Sse2.nonce, Sse2.key16, Sse2.constant16, Sse2.ofWords, Sse2._mm_loadu_si128, hk, hn, Except.map,
        toVec, toRef, cst16_sse2]
  · rcases hn with hn | hn | hn
    · rw [layout_8 key nonce hn, initState_32 key hk]
      simp [Sse2.init, Sse2.nonce, Sse2.key32, Sse2.constant32, Sse2.ofWords, Sse2._mm_loadu_si128, hk, hn, Except.map,
        toVec, toRef, cst32_sse2]
    · rw [layout_12 key nonce hn, initState_32 key hk]
      simp [Sse2.init, Sse2.nonce, Sse2.key32, Sse2.constant32, Sse2.ofWords, Sse2._mm_loadu_si128, hk, hn, Except.map,
        toVec, toRef, cst32_sse2]
    · rw [layout_16 key nonce hn, initState_32 key hk]
      simp [Sse2.init, Sse2.nonce, Sse2.key32, Sse2.constant32, Sse2.ofWords, Sse2._mm_loadu_si128, hk, hn, Except.map,
        toVec, toRef, cst32_sse2]

/-- C16: SSE2 lane loading = portable init, word for word -/
theorem sse2_init_eq_reference (key nonce : Bytes) (hk : Spec.ChaCha.validKey key) (hn : validNonce nonce) :
    (Sse2.init key nonce).map (fun s => toVec (toRef s)) = (Reference.init key nonce).map toVec := by
  rw [sse2_init key nonce hk hn, reference_init key nonce hk hn]

end Cx.Proofs.ChaCha
