/-
  Proofs.X25519_32Ladder — the Montgomery ladder of `curve25519` on the 32-BIT field backend refines the RFC 7748 loop.
  Counterpart of Proofs/X25519Arith.lean + Proofs/X25519Ladder.lean, whose backend-independent parts are reused (the
  RFC formulas `specArith`, `a24_lemma`, the extracted constants, `bitChoice_spec`, the clamping).
  Weight discipline of one iteration (registers x2 z2 x3 z3 of weight 1 on entry and on exit):
      d, b, a, c = x ∓ z                 2        da, cb, bb, aa (products / squares of weight-2 operands)   1
      t0, t1 = da ± cb;  e = aa − bb     2        x4 = aa·bb, t2 = t1², x5 = t0²                             1
      t3 = e.mul_small::<121666>()       1   (operand weight 2 ≤ 3, constant ≤ 2^18)
      t4 = bb + t3                       2        z5 = x1·t2 | t2.mul_small::<9>(),  z4 = e·t4               1
  and the masked swaps act on `[i32; 10]` arrays whose limbs are `i32` values (weight ≤ 63).
-/
import CxVerif.Proofs.Ge32Refine
import CxVerif.Proofs.Fe32Bytes
import CxVerif.Proofs.Fe32FromBytes
import CxVerif.Proofs.X25519Ladder
import CxVerif.Impl.X25519_32
namespace Cx.Proofs.X25519_32
open Cx Cx.Spec Cx.Impl.Fe32 Cx.Impl.X25519_32 Cx.Impl.CT Cx.Proofs.Fe32
open Cx.Spec.Field25519 (p)
open Cx.Props.C18 (Choice.ofBool)
open Cx.Impl.X25519 (clampE clampE_length bitChoice)
open Cx.Proofs.X25519 (specArith a24_lemma mul_comm' bitChoice_spec range_succ_reverse clampE_eq init_swap)

/-- what the two variants of `z5` need: `&x1 * &t2` (x1 W 1, denotes `x1v`) or `t2.mul_small::<k>()` (`x1v = k`) -/
def Z5Ok (z5k : Z5) (x1v : Nat) : Prop :=
  match z5k with
  | .mulX1 x1 => W 1 x1 ∧ eval x1 = x1v
  | .small k => k ≤ 2^18 ∧ x1v = k

/-- the arithmetic of one iteration: no overflow, carried outputs, RFC 7748 values -/
theorem ladderArith_spec (z5k : Z5) (x1v : Nat) (hz5 : Z5Ok z5k x1v) (x2 z2 x3 z3 : Fe)
    (hx2 : W 1 x2) (hz2 : W 1 z2) (hx3 : W 1 x3) (hz3 : W 1 z3) :
    ∃ x4 z4 x5 z5, ladderArith 121666 z5k x2 z2 x3 z3 = some (x4, z4, x5, z5) ∧
      W 1 x4 ∧ W 1 z4 ∧ W 1 x5 ∧ W 1 z5 ∧
      (eval x4, eval z4, eval x5, eval z5) = specArith x1v (eval x2) (eval z2) (eval x3) (eval z3) := by
  simp only [ladderArith]
  obtain ⟨d, e, td, vd⟩ := sub_specN x3 z3 hx3 hz3; rw [e, some_bind]
  obtain ⟨b, e, tb, vb⟩ := sub_specN x2 z2 hx2 hz2; rw [e, some_bind]
  obtain ⟨a, e, ta, va⟩ := add_specN x2 z2 hx2 hz2; rw [e, some_bind]
  obtain ⟨c, e, tc, vc⟩ := add_specN x3 z3 hx3 hz3; rw [e, some_bind]
  obtain ⟨da, e, tda, vda⟩ := mul_spec d a td.w3 ta.w3; rw [e, some_bind]
  obtain ⟨cb, e, tcb, vcb⟩ := mul_spec c b tc.w3 tb.w3; rw [e, some_bind]
  obtain ⟨bb, e, tbb, vbb⟩ := square_spec b tb.w3; rw [e, some_bind]
  obtain ⟨aa, e, taa, vaa⟩ := square_spec a ta.w3; rw [e, some_bind]
  obtain ⟨t0, e, tt0, vt0⟩ := add_specN da cb tda tcb; rw [e, some_bind]
  obtain ⟨t1, e, tt1, vt1⟩ := sub_specN da cb tda tcb; rw [e, some_bind]
  obtain ⟨x4, e, tx4, vx4⟩ := mul_spec aa bb taa.w3 tbb.w3; rw [e, some_bind]
  obtain ⟨ee, e, tee, vee⟩ := sub_specN aa bb taa tbb; rw [e, some_bind]
  obtain ⟨t2, e, tt2, vt2⟩ := square_spec t1 tt1.w3; rw [e, some_bind]
  obtain ⟨t3, e, tt3, vt3⟩ := mul_small_spec ee 121666 tee.w3 (by decide); rw [e, some_bind]
  obtain ⟨x5, e, tx5, vx5⟩ := square_spec t0 tt0.w3; rw [e, some_bind]
  obtain ⟨t4, e, tt4, vt4⟩ := add_specN bb t3 tbb tt3; rw [e, some_bind]
  have hz5' : ∃ z5, z5Of z5k t2 = some z5 ∧ W 1 z5 ∧ eval z5 = Field25519.mul x1v (eval t2) := by
    unfold z5Of
    cases z5k with
    | mulX1 x1 =>
      obtain ⟨h1, h2⟩ := hz5
      obtain ⟨z5, e, tz5, vz5⟩ := mul_spec x1 t2 h1.w3 tt2.w3
      exact ⟨z5, e, tz5, by rw [vz5, h2]⟩
    | small k =>
      obtain ⟨h1, h2⟩ := hz5
      obtain ⟨z5, e, tz5, vz5⟩ := mul_small_spec t2 k tt2.w3 h1
      exact ⟨z5, e, tz5, by rw [vz5, h2, mul_comm']⟩
  obtain ⟨z5, e, tz5, vz5⟩ := hz5'; rw [e, some_bind]
  obtain ⟨z4, e, tz4, vz4⟩ := mul_spec ee t4 tee.w3 tt4.w3; rw [e, some_bind]
  refine ⟨x4, z4, x5, z5, rfl, tx4, tz4, tx5, tz5, ?_⟩
  simp only [specArith, X25519.a24]
  rw [vx4, vz4, vx5, vz5, vt4, vt3, vt2, vee, vt1, vt0, vaa, vbb, vcb, vda, vc, va, vb, vd, a24_lemma]

/-! ## one loop iteration -/

/-- the simulation relation between the code's registers and the RFC's variables -/
structure R (s : Ladder) (t : X25519.State) : Prop where
  tx2 : W 1 s.x2
  tz2 : W 1 s.z2
  tx3 : W 1 s.x3
  tz3 : W 1 s.z3
  vx2 : eval s.x2 = t.x2
  vz2 : eval s.z2 = t.z2
  vx3 : eval s.x3 = t.x3
  vz3 : eval s.z3 = t.z3
  sw : ∃ c : Bool, s.swap = Choice.ofBool c ∧ t.swap = c.toNat

theorem W1.word {f : Fe} (h : W 1 f) : I32 f := h.i32

theorem step_spec (e : Bytes) (he : e.length = 32) (z5k : Z5) (x1v : Nat) (hz5 : Z5Ok z5k x1v)
    (s : Ladder) (t : X25519.State) (hR : R s t) (pos : Nat) (hp : pos < 255) :
    ∃ s', ladderStep e he 121666 z5k s pos hp = some s' ∧ R s' (X25519.step (leNat e) x1v t pos) := by
  obtain ⟨tx2, tz2, tx3, tz3, vx2, vz2, vx3, vz3, c, hc, hct⟩ := hR
  unfold ladderStep ladderStepCore
  rw [bitChoice_spec e he pos hp, hc, Cx.Props.C18.choice_xor,
    maybe_swap_with_spec _ _ (W1.word tx2) (W1.word tx3),
    maybe_swap_with_spec _ _ (W1.word tz2) (W1.word tz3)]
  generalize hkb : decide (leNat e / 2 ^ pos % 2 = 1) = kb
  have hkt : leNat e / 2 ^ pos % 2 = kb.toNat := by
    have := Nat.mod_two_eq_zero_or_one (leNat e / 2 ^ pos)
    rcases this with h | h <;> simp [h] at hkb <;> subst hkb <;> simp [h]
  -- the Spec's swap decision
  have hsw : (t.swap + leNat e / 2 ^ pos % 2) % 2 = (c ^^ kb).toNat := by
    rw [hct, hkt]; cases c <;> cases kb <;> rfl
  simp only [X25519.step]
  rw [hsw]
  simp only [hkt]
  cases hx : (c ^^ kb)
  · -- no swap
    simp only [Bool.false_eq_true, if_false, X25519.cswap, Bool.toNat_false, Nat.zero_ne_one]
    obtain ⟨x4, z4, x5, z5, ea, t4, tz4, t5, tz5, hv⟩ :=
      ladderArith_spec z5k x1v hz5 s.x2 s.z2 s.x3 s.z3 tx2 tz2 tx3 tz3
    rw [ea, Option.map_some]
    simp only [specArith, Prod.mk.injEq] at hv
    obtain ⟨h1, h2, h3, h4⟩ := hv
    refine ⟨_, rfl, ⟨t4, tz4, t5, tz5, ?_, ?_, ?_, ?_, ⟨kb, rfl, rfl⟩⟩⟩
    · rw [h1, vx2, vz2]
    · rw [h2, vx2, vz2]
    · rw [h3, vx2, vz2, vx3, vz3]
    · rw [h4, vx2, vz2, vx3, vz3]
  · -- swap
    simp only [if_true, X25519.cswap, Bool.toNat_true]
    obtain ⟨x4, z4, x5, z5, ea, t4, tz4, t5, tz5, hv⟩ :=
      ladderArith_spec z5k x1v hz5 s.x3 s.z3 s.x2 s.z2 tx3 tz3 tx2 tz2
    rw [ea, Option.map_some]
    simp only [specArith, Prod.mk.injEq] at hv
    obtain ⟨h1, h2, h3, h4⟩ := hv
    refine ⟨_, rfl, ⟨t4, tz4, t5, tz5, ?_, ?_, ?_, ?_, ⟨kb, rfl, rfl⟩⟩⟩
    · rw [h1, vx3, vz3]
    · rw [h2, vx3, vz3]
    · rw [h3, vx2, vz2, vx3, vz3]
    · rw [h4, vx2, vz2, vx3, vz3]

/-! ## the loop -/

theorem loop_spec (e : Bytes) (he : e.length = 32) (z5k : Z5) (x1v : Nat) (hz5 : Z5Ok z5k x1v) :
    ∀ (k : Nat) (hk : k ≤ 255) (s : Ladder) (t : X25519.State), R s t →
      ∃ s', ladderLoop e he 121666 z5k k hk s = some s' ∧
        R s' ((List.range k).reverse.foldl (X25519.step (leNat e) x1v) t) := by
  intro k
  induction k with
  | zero => intro hk s t hR; exact ⟨s, rfl, hR⟩
  | succ k ih =>
    intro hk s t hR
    obtain ⟨s1, h1, hR1⟩ := step_spec e he z5k x1v hz5 s t hR k (by omega)
    obtain ⟨s2, h2, hR2⟩ := ih (by omega) s1 _ hR1
    refine ⟨s2, ?_, ?_⟩
    · rw [ladderLoop, h1, Option.bind_some]; exact h2
    · rw [range_succ_reverse, List.foldl_cons]; exact hR2

/-! ## the whole function -/

/-- the statements shared by `curve25519` and `curve25519_base`, for a W 1 `x1` denoting `x1v`
    and either variant of `z5` -/
theorem ladderMain_spec (n : Bytes) (hn : n.length = 32) (x1 : Fe) (hx1 : W 1 x1) (z5k : Z5)
    (hz5 : Z5Ok z5k (eval x1)) :
    ladderMain n hn x1 121666 z5k
      = some (Field25519.encode (X25519.ladder (X25519.decodeScalar25519 n) (eval x1))) := by
  unfold ladderMain
  simp only []
  have hR0 : R ⟨Fe.ONE, Fe.ZERO, x1, Fe.ONE, u64_ct_zero 1⟩ ⟨1, 0, eval x1, 1, 0⟩ :=
    ⟨ONE_spec.1, ZERO_spec.1, hx1, ONE_spec.1,
      ONE_spec.2, ZERO_spec.2, rfl, ONE_spec.2, ⟨false, init_swap, rfl⟩⟩
  obtain ⟨s, hs, hR⟩ := loop_spec (clampE n) (by rw [clampE_length]; exact hn) z5k (eval x1) hz5 255
    (by omega) _ _ hR0
  rw [hs, some_bind]
  obtain ⟨tx2, tz2, tx3, tz3, vx2, vz2, vx3, vz3, c, hc, hct⟩ := hR
  rw [hc, maybe_swap_with_spec _ _ (W1.word tx2) (W1.word tx3),
    maybe_swap_with_spec _ _ (W1.word tz2) (W1.word tz3)]
  unfold X25519.ladder X25519.ladderState X25519.decodeScalar25519
  rw [← clampE_eq]
  simp only []
  rw [hct]
  cases c
  · simp only [Bool.false_eq_true, if_false, X25519.cswap, Bool.toNat_false, Nat.zero_ne_one]
    obtain ⟨zi, e, tzi, vzi⟩ := invert_spec s.z2 tz2.w3; rw [e, some_bind]
    obtain ⟨r, e, tr, vr⟩ := mul_spec zi s.x2 tzi.w3 tx2.w3; rw [e, some_bind]
    rw [to_bytes_spec r tr.w6, vr, vzi, vx2, vz2, mul_comm']
    rfl
  · simp only [if_true, X25519.cswap, Bool.toNat_true]
    obtain ⟨zi, e, tzi, vzi⟩ := invert_spec s.z3 tz3.w3; rw [e, some_bind]
    obtain ⟨r, e, tr, vr⟩ := mul_spec zi s.x3 tzi.w3 tx3.w3; rw [e, some_bind]
    rw [to_bytes_spec r tr.w6, vr, vzi, vx3, vz3, mul_comm']
    rfl

/-! ## the two entry points -/

/-- `curve25519(n, p)` on the 32-bit backend does not overflow and is X25519 of RFC 7748, for all 32-byte inputs -/
theorem curve25519_eq (n u : Bytes) (hn : n.length = 32) (hu : u.length = 32) :
    curve25519 n u hn hu = some (X25519.x25519 n u) := by
  obtain ⟨x1, e1, t1, _, v1⟩ := from_bytes_spec u hu
  unfold curve25519
  rw [e1, Option.bind_some]
  have hz : Z5Ok (.mulX1 x1) (eval x1) := ⟨t1, rfl⟩
  rw [Cx.Proofs.X25519.A24P1_eq, ladderMain_spec n hn _ t1 _ hz, v1]
  rfl

/-- the fixed-base function (its own copy of the ladder, `z5 = t2.mul_small::<9>()`) is X25519(n, 9) -/
theorem curve25519_base_eq (n : Bytes) (hn : n.length = 32) :
    curve25519_base n hn = some (X25519.x25519Base n) := by
  obtain ⟨x1, e1, t1, _, v1⟩ := from_bytes_spec Cx.Impl.X25519.BASE Cx.Impl.X25519.BASE_length
  unfold curve25519_base
  rw [e1, Option.bind_some]
  have h9 : eval x1 = 9 := by rw [v1]; decide
  have hz : Z5Ok (.small 9) (eval x1) := ⟨by decide, h9⟩
  rw [Cx.Proofs.X25519.A24P1_BASE_eq, Cx.Proofs.X25519.NINE_eq, ladderMain_spec n hn _ t1 _ hz, h9]
  unfold X25519.x25519Base X25519.x25519 X25519.decodeUCoordinate
  have : Field25519.decode X25519.basePoint = 9 := by decide
  rw [this]

end Cx.Proofs.X25519_32
