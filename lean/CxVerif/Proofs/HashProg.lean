/-
  Proofs.HashProg — generic simulation lemma for the operation-history machine `Cx.HashProg.runProg`
  (the function the `hctx.<alg>` driver ops run).  A context family `F` refines the abstract family
  `famSpec hash` (state = bytes since the last reset) as soon as its five methods respect an abstraction
  relation `R ctx msg`; the lemma lifts that to EVERY op history (induction over the op list), including
  clone/fork (`c`), swapping the two copies (`x`), reset, finalize_reset and finalize-of-a-clone.
  `ok msg` is the standard's domain guard (e.g. `msg.length < 2^61`), required only where a digest is produced.

  Used by Props/C02/Sha2.lean; reusable by every hash unit (instantiate `R`, prove the five step lemmas).
  Core Lean only.
-/
import CxVerif.Impl.HashProg
namespace Cx.Proofs.HashProg
open Cx Cx.HashProg

/-- pointwise relation between the stack of contexts and the stack of abstract states -/
def StackRel {γ : Type} (R : γ → Bytes → Prop) : List γ → List Bytes → Prop
  | [], [] => True
  | c :: cs, m :: ms => R c m ∧ StackRel R cs ms
  | _, _ => False

/-- every digest of the history is taken inside the domain `ok` (checked on the abstract run) -/
def Guard (ok : Bytes → Prop) : List Op → Bytes → List Bytes → Prop
  | [], _, _ => True
  | .update b :: ops, m, ms => Guard ok ops (m ++ b) ms
  | .update_mut b :: ops, m, ms => Guard ok ops (m ++ b) ms
  | .clone :: ops, m, ms => Guard ok ops m (m :: ms)
  | .swap :: ops, m, [] => Guard ok ops m []
  | .swap :: ops, m, t :: ms => Guard ok ops t (m :: ms)
  | .reset :: ops, _, ms => Guard ok ops [] ms
  | .finalize_reset :: ops, m, ms => ok m ∧ Guard ok ops [] ms
  | .finalize :: ops, m, ms => ok m ∧ Guard ok ops m ms

/-- the step obligations of a context family against the abstract machine -/
structure Refines {γ : Type} (F : Family γ) (hash : Bytes → Bytes) (R : γ → Bytes → Prop) (ok : Bytes → Prop) : Prop where
  new : R F.new []
  update : ∀ c m b, R c m → ∃ c', F.update c b = some c' ∧ R c' (m ++ b)
  update_mut : ∀ c m b, R c m → ∃ c', F.update_mut c b = some c' ∧ R c' (m ++ b)
  reset : ∀ c m, R c m → R (F.reset c) []
  finalize_reset : ∀ c m, R c m → ok m → ∃ c', F.finalize_reset c = some (c', hash m) ∧ R c' []
  finalize : ∀ c m, R c m → ok m → F.finalize c = some (hash m)

/-- **simulation**: on every history whose digests are taken inside the domain, the family emits exactly the
    digests of the abstract machine (`hash` of the bytes since the last reset), and never panics -/
theorem runProg_sim {γ : Type} {F : Family γ} {hash : Bytes → Bytes} {R : γ → Bytes → Prop} {ok : Bytes → Prop}
    (h : Refines F hash R ok) :
    ∀ (ops : List Op) (cur : γ) (stack : List γ) (out : List Bytes) (m : Bytes) (ms : List Bytes),
      R cur m → StackRel R stack ms → Guard ok ops m ms →
      runProg F ops cur stack out = runProg (famSpec hash) ops m ms out := by
  intro ops
  induction ops with
  | nil => intro cur stack out m ms _ _ _; rfl
  | cons op ops ih =>
    intro cur stack out m ms hR hS hG
    cases op with
    | update b =>
      obtain ⟨c', e, hR'⟩ := h.update cur m b hR
      simp only [runProg, e, famSpec]
      exact ih c' stack out (m ++ b) ms hR' hS hG
    | update_mut b =>
      obtain ⟨c', e, hR'⟩ := h.update_mut cur m b hR
      simp only [runProg, e, famSpec]
      exact ih c' stack out (m ++ b) ms hR' hS hG
    | clone =>
      simp only [runProg]
      exact ih cur (cur :: stack) out m (m :: ms) hR ⟨hR, hS⟩ hG
    | swap =>
      cases stack with
      | nil =>
        cases ms with
        | nil => simp only [runProg]; exact ih cur [] out m [] hR hS hG
        | cons t ms => exact absurd hS (by simp [StackRel])
      | cons c cs =>
        cases ms with
        | nil => exact absurd hS (by simp [StackRel])
        | cons t ms =>
          simp only [runProg]
          exact ih c (cur :: cs) out t (m :: ms) hS.1 ⟨hR, hS.2⟩ hG
    | reset =>
      simp only [runProg, famSpec]
      exact ih (F.reset cur) stack out [] ms (h.reset cur m hR) hS hG
    | finalize_reset =>
      obtain ⟨c', e, hR'⟩ := h.finalize_reset cur m hR hG.1
      simp only [runProg, e, famSpec]
      exact ih c' stack (hash m :: out) [] ms hR' hS hG.2
    | finalize =>
      have e := h.finalize cur m hR hG.1
      simp only [runProg, e, famSpec]
      exact ih cur stack (hash m :: out) m ms hR hS hG.2

/-- from a new context: the whole program -/
theorem runProg_new {γ : Type} {F : Family γ} {hash : Bytes → Bytes} {R : γ → Bytes → Prop} {ok : Bytes → Prop}
    (h : Refines F hash R ok) (ops : List Op) (hG : Guard ok ops [] []) :
    runProg F ops F.new [] [] = runProg (famSpec hash) ops [] [] [] :=
  runProg_sim h ops F.new [] [] [] [] h.new trivial hG

/-! ### split independence as a corollary -/

/-- a chunk fed with the consuming `update` (`false`) or the in-place `update_mut` (`true`) -/
def chunkOp (c : Bool × Bytes) : Op := if c.1 then Op.update_mut c.2 else Op.update c.2

def chunkBytes (cs : List (Bool × Bytes)) : Bytes := (cs.map (·.2)).flatten

theorem guard_chunks (ok : Bytes → Prop) (cs : List (Bool × Bytes)) : ∀ (m : Bytes) (ms : List Bytes),
    ok (m ++ chunkBytes cs) → Guard ok (cs.map chunkOp ++ [Op.finalize]) m ms := by
  induction cs with
  | nil => intro m ms h; simpa [Guard, chunkBytes] using h
  | cons c cs ih =>
    intro m ms h
    obtain ⟨f, b⟩ := c
    have h' : ok ((m ++ b) ++ chunkBytes cs) := by simpa [chunkBytes, List.append_assoc] using h
    cases f
    · simpa [chunkOp, Guard] using ih (m ++ b) ms h'
    · simpa [chunkOp, Guard] using ih (m ++ b) ms h'

theorem famSpec_chunks (hash : Bytes → Bytes) (cs : List (Bool × Bytes)) : ∀ (m : Bytes) (ms out : List Bytes),
    runProg (famSpec hash) (cs.map chunkOp ++ [Op.finalize]) m ms out
      = some ((hash (m ++ chunkBytes cs) :: out).reverse) := by
  induction cs with
  | nil => intro m ms out; simp [runProg, famSpec, chunkBytes]
  | cons c cs ih =>
    intro m ms out
    obtain ⟨f, b⟩ := c
    have e : (m ++ b) ++ chunkBytes cs = m ++ chunkBytes ((f, b) :: cs) := by simp [chunkBytes, List.append_assoc]
    cases f
    · simp only [List.map_cons, chunkOp, List.cons_append, runProg, famSpec, Bool.false_eq_true, if_false]
      have := ih (m ++ b) ms out
      simp only [famSpec] at this
      rw [this, e]
    · simp only [List.map_cons, chunkOp, List.cons_append, runProg, famSpec, if_true]
      have := ih (m ++ b) ms out
      simp only [famSpec] at this
      rw [this, e]

/-- **split independence**: any sequence of `update`/`update_mut` calls (empty pieces included) followed by a
    finalisation emits the digest of the concatenation -/
theorem split_independence {γ : Type} {F : Family γ} {hash : Bytes → Bytes} {R : γ → Bytes → Prop}
    {ok : Bytes → Prop} (h : Refines F hash R ok) (cs : List (Bool × Bytes)) (hok : ok (chunkBytes cs)) :
    runProg F (cs.map chunkOp ++ [Op.finalize]) F.new [] [] = some [hash (chunkBytes cs)] := by
  rw [runProg_new h _ (guard_chunks ok cs [] [] (by simpa using hok)), famSpec_chunks]
  simp

end Cx.Proofs.HashProg
