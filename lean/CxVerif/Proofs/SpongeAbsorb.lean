/-
  Proofs.SpongeAbsorb — the absorb path of `Engine::process` refines "bytes absorbed so far".
  `engine_of r m` is THE engine state after absorbing the byte string m (in any chunking):
     state  = (sponge state after the ⌊|m|/r⌋ full blocks of m) ⊕ (the remaining |m| mod r bytes ‖ 0…)
     offset = |m| mod r,  can_absorb = can_squeeze = true.
  `process_spec`: process (engine_of r m) data = engine_of r (m ++ data) for every m and data (no panic).
-/
import CxVerif.Proofs.KeccakF
namespace Cx.Proofs.Sponge
open Cx Cx.Spec.Keccak Cx.Impl.Sha3 Cx.Proofs.Keccak

/-! ## xorPad / xor_in -/

theorem xorPad_nil (S : Bytes) : xorPad S [] = S := by cases S <;> rfl

theorem xorPad_length (S P : Bytes) : (xorPad S P).length = S.length := by
  induction S generalizing P with
  | nil => rfl
  | cons s S ih => cases P with
    | nil => rfl
    | cons p P => simp [xorPad, ih]

theorem xorPad_drop (S t : Bytes) (h : t.length ≤ S.length) : (xorPad S t).drop t.length = S.drop t.length := by
  induction t generalizing S with
  | nil => simp [xorPad_nil]
  | cons p t ih => cases S with
    | nil => simp at h
    | cons s S => simp only [xorPad, List.length_cons, List.drop_succ_cons]; exact ih S (by simpa using h)

theorem xorPad_append (S t c : Bytes) (h : t.length ≤ S.length) :
    xorPad S (t ++ c) = (xorPad S t).take t.length ++ xorPad (S.drop t.length) c := by
  induction t generalizing S with
  | nil => simp [xorPad_nil]
  | cons p t ih => cases S with
    | nil => simp at h
    | cons s S =>
      simp only [List.cons_append, xorPad, List.length_cons, List.take_succ_cons, List.drop_succ_cons]
      rw [ih S (by simpa using h)]

theorem xor_in_zero (S ds : Bytes) (h : ds.length ≤ S.length) : xor_in S 0 ds = some (xorPad S ds) := by
  induction ds generalizing S with
  | nil => simp [xor_in, xorPad_nil]
  | cons d ds ih => cases S with
    | nil => simp at h
    | cons b S => simp [xor_in, xorPad, ih S (by simpa using h)]

theorem xor_in_append (pre S ds : Bytes) (h : ds.length ≤ S.length) :
    xor_in (pre ++ S) pre.length ds = some (pre ++ xorPad S ds) := by
  induction pre with
  | nil => simpa using xor_in_zero S ds h
  | cons p pre ih =>
    cases ds with
    | nil => simp [xor_in, xorPad_nil]
    | cons d ds => simp [xor_in, ih]

/-- the byte-wise `state[offset+i] ^= data[i]` loop continues the XOR of the partial block -/
theorem xor_in_xorPad (S t c : Bytes) (h : t.length + c.length ≤ S.length) :
    xor_in (xorPad S t) t.length c = some (xorPad S (t ++ c)) := by
  have hl : t.length ≤ (xorPad S t).length := by rw [xorPad_length]; omega
  have e : xorPad S t = (xorPad S t).take t.length ++ S.drop t.length := by
    rw [← xorPad_drop S t (by omega), List.take_append_drop]
  have hp : ((xorPad S t).take t.length).length = t.length := by simp [List.length_take]; omega
  rw [e]
  have := xor_in_append ((xorPad S t).take t.length) (S.drop t.length) c (by simp [List.length_drop]; omega)
  rw [hp] at this
  rw [this, xorPad_append S t c (by omega)]

/-! ## absorbBlocks -/

theorem zeros_length (n : Nat) : (zeros n).length = n := by unfold zeros; exact List.length_replicate

theorem absorbBlocks_length (r k : Nat) (S P : Bytes) (h : S.length = 200) : (absorbBlocks r k S P).length = 200 := by
  induction k generalizing S P with
  | zero => exact h
  | succ k ih => exact ih _ _ (keccakF_length _)

/-- bytes beyond the first n blocks are not looked at -/
theorem absorbBlocks_append (r n : Nat) (S P Q : Bytes) (h : r * n ≤ P.length) :
    absorbBlocks r n S (P ++ Q) = absorbBlocks r n S P := by
  induction n generalizing S P with
  | zero => rfl
  | succ n ih =>
    have h1 : r ≤ P.length := by rw [Nat.mul_succ] at h; omega
    simp only [absorbBlocks]
    rw [List.take_append_of_le_length h1, List.drop_append_of_le_length h1]
    exact ih _ _ (by rw [List.length_drop, Nat.mul_succ] at *; omega)

/-- appending one more block = one more step  S ← f(S ⊕ (block ‖ 0^c)) -/
theorem absorbBlocks_snoc (r k : Nat) (S b c : Bytes) (hb : b.length = r * k) (hc : c.length = r) :
    absorbBlocks r (k + 1) S (b ++ c) = keccakF (xorPad (absorbBlocks r k S b) c) := by
  induction k generalizing S b with
  | zero =>
    have : b = [] := List.eq_nil_of_length_eq_zero (by simpa using hb)
    subst this
    simp [absorbBlocks, ← hc]
  | succ k ih =>
    have h1 : r ≤ b.length := by rw [hb, Nat.mul_succ]; omega
    rw [absorbBlocks, List.take_append_of_le_length h1, List.drop_append_of_le_length h1]
    rw [ih _ (b.drop r) (by rw [List.length_drop, hb, Nat.mul_succ]; omega)]
    rfl

/-! ## the abstraction -/

/-- sponge state after the full r-byte blocks of m (Algorithm 8 step 6 on ⌊|m|/r⌋ blocks) -/
def absorbed (r : Nat) (m : Bytes) : Bytes := absorbBlocks r (m.length / r) (zeros 200) m
/-- the bytes of m after its last full block -/
def tailOf (r : Nat) (m : Bytes) : Bytes := m.drop (m.length / r * r)

/-- the engine after absorbing exactly the bytes m -/
def engine_of (r : Nat) (m : Bytes) : Engine :=
  { state := xorPad (absorbed r m) (tailOf r m), can_absorb := true, can_squeeze := true, offset := m.length % r }

theorem divmod_decomp (r k t : Nat) (ht : t < r) : (r * k + t) / r = k ∧ (r * k + t) % r = t := by
  have hr : 0 < r := by omega
  constructor
  · rw [Nat.mul_add_div hr, Nat.div_eq_of_lt ht, Nat.add_zero]
  · rw [Nat.mul_add_mod, Nat.mod_eq_of_lt ht]

/-- closed form of `engine_of` on a decomposed message: b = k full blocks, t = partial block -/
theorem engine_of_decomp (r k : Nat) (b t : Bytes) (hb : b.length = r * k) (ht : t.length < r) :
    engine_of r (b ++ t) =
      { state := xorPad (absorbBlocks r k (zeros 200) b) t, can_absorb := true, can_squeeze := true, offset := t.length } := by
  have hl : (b ++ t).length = r * k + t.length := by simp [hb]
  obtain ⟨hd, hm⟩ := divmod_decomp r k t.length ht
  unfold engine_of absorbed tailOf
  rw [hl, hd, hm, absorbBlocks_append r k _ b t (by omega)]
  have : (b ++ t).drop (k * r) = t := by
    rw [Nat.mul_comm, ← hb]; simp
  rw [this]

theorem decomp_exists (r : Nat) (hr : 0 < r) (m : Bytes) :
    ∃ k b t, m = b ++ t ∧ b.length = r * k ∧ t.length < r := by
  refine ⟨m.length / r, m.take (r * (m.length / r)), m.drop (r * (m.length / r)), ?_, ?_, ?_⟩
  · simp
  · have := Nat.mul_div_le m.length r
    simp [List.length_take]; omega
  · have h1 := Nat.div_add_mod m.length r
    have h2 := Nat.mod_lt m.length hr
    simp [List.length_drop]; omega

theorem engine_of_nil (r : Nat) (hr : 0 < r) : engine_of r [] = Engine.new := by
  have := engine_of_decomp r 0 [] [] (by simp) (by simpa using hr)
  simp only [List.append_nil] at this
  rw [this]; rfl

theorem engine_of_state_length (r : Nat) (m : Bytes) : (engine_of r m).state.length = 200 := by
  unfold engine_of absorbed
  simp only [xorPad_length]
  exact absorbBlocks_length _ _ _ _ (zeros_length 200)

/-! ## the absorb loop -/

theorem absorb_loop_decomp (r : Nat) (hr : 0 < r) (hr2 : r ≤ 200) :
    ∀ (n : Nat) (data : Bytes), data.length ≤ n → ∀ (k : Nat) (b t : Bytes), b.length = r * k → t.length < r →
      absorb_loop r (xorPad (absorbBlocks r k (zeros 200) b) t) t.length data
        = some ((engine_of r (b ++ t ++ data)).state, (engine_of r (b ++ t ++ data)).offset) := by
  intro n
  induction n with
  | zero =>
    intro data hn k b t hb ht
    have : data = [] := List.eq_nil_of_length_eq_zero (by omega)
    subst this
    rw [absorb_loop, dif_pos rfl, List.append_nil, engine_of_decomp r k b t hb ht]
  | succ n ih =>
    intro data hn k b t hb ht
    by_cases hd : data = []
    · subst hd
      rw [absorb_loop, dif_pos rfl, List.append_nil, engine_of_decomp r k b t hb ht]
    · have hS : (absorbBlocks r k (zeros 200) b).length = 200 := absorbBlocks_length _ _ _ _ (zeros_length 200)
      have hdl : 0 < data.length := List.length_pos_iff.mpr hd
      rw [absorb_loop, dif_neg hd, dif_pos ht]
      simp only
      have hx : xor_in (xorPad (absorbBlocks r k (zeros 200) b) t) t.length (data.take (min (r - t.length) data.length))
          = some (xorPad (absorbBlocks r k (zeros 200) b) (t ++ data.take (min (r - t.length) data.length))) := by
        apply xor_in_xorPad
        rw [hS, List.length_take]; omega
      rw [hx]
      simp only
      by_cases hfull : t.length + min (r - t.length) data.length = r
      · -- the block is completed: keccak_f, offset 0, continue with the rest
        rw [if_pos hfull]
        have hmin : min (r - t.length) data.length = r - t.length := by omega
        rw [hmin]
        have hc : (t ++ data.take (r - t.length)).length = r := by
          simp [List.length_take]; omega
        have hk : keccak_f (xorPad (absorbBlocks r k (zeros 200) b) (t ++ data.take (r - t.length)))
            = some (keccakF (xorPad (absorbBlocks r k (zeros 200) b) (t ++ data.take (r - t.length)))) :=
          keccak_f_eq _ (by rw [xorPad_length, hS])
        rw [hk]
        simp only
        rw [← absorbBlocks_snoc r k (zeros 200) b (t ++ data.take (r - t.length)) hb hc]
        have := ih (data.drop (r - t.length)) (by rw [List.length_drop]; omega) (k + 1)
          (b ++ (t ++ data.take (r - t.length))) [] (by simp [hb, hc, Nat.mul_succ]) (by simpa using hr)
        rw [xorPad_nil] at this
        simp only [List.length_nil, List.append_nil] at this
        rw [this]
        have e : b ++ (t ++ data.take (r - t.length)) ++ data.drop (r - t.length) = b ++ t ++ data := by
          simp [List.append_assoc]
        rw [e]
      · -- the data ends inside the block
        rw [if_neg hfull]
        have hmin : min (r - t.length) data.length = data.length := by omega
        rw [hmin, List.take_length]
        have := engine_of_decomp r k b (t ++ data) hb (by simp; omega)
        rw [List.append_assoc, this]
        simp

/-- `Engine::process` on the state that represents m yields the state that represents m ++ data; it never panics -/
theorem process_spec (dl r : Nat) (hrate : rate dl = some r) (hr : 0 < r) (m data : Bytes) :
    Engine.process dl (engine_of r m) data = some (engine_of r (m ++ data)) := by
  have hr2 : r ≤ 200 := by
    unfold rate at hrate
    split at hrate
    · simp only [Option.some.injEq] at hrate
      have : Cx.Extracted.Sha3.B = 200 := rfl
      omega
    · simp at hrate
  obtain ⟨k, b, t, rfl, hb, ht⟩ := decomp_exists r hr m
  have hloop := absorb_loop_decomp r hr hr2 data.length data (Nat.le_refl _) k b t hb ht
  rw [engine_of_decomp r k b t hb ht]
  unfold Engine.process
  simp only [hrate, Option.bind_eq_bind, Option.bind_some, ht, hloop]
  rfl

end Cx.Proofs.Sponge
