/-
  Proofs.EdField — the Spec field (`Nat` operations reduced mod p, Spec/Field25519.lean) seen in `ZMod p`:
  every Spec operation is the ring operation of `ZMod p` under the cast; `inv` is the field inverse when `p` is
  prime (Fermat); reduced naturals are equal iff their casts are.  Facts about the curve constants that only
  need kernel evaluation plus primality: `sqrtM1² = −1`, `d` is not a square (Euler's criterion), `2 ≠ 0`.
-/
import CxVerif.Spec.Edwards
import Mathlib.FieldTheory.Finite.Basic
import Mathlib.Algebra.Field.ZMod
namespace Cx.Proofs.EdField
open Cx.Spec
open Cx.Spec.Field25519 (p)

/-- the field GF(2^255 − 19) -/
abbrev Fp := ZMod p

theorem p_pos : 0 < p := by decide
theorem p_gt_two : 2 < p := by decide
instance : NeZero p := ⟨by decide⟩

theorem cast_mod (a : Nat) : ((a % p : Nat) : Fp) = (a : Fp) := ZMod.natCast_mod a p

theorem cast_add (a b : Nat) : ((Field25519.add a b : Nat) : Fp) = (a : Fp) + b := by
  unfold Field25519.add; rw [cast_mod]; push_cast; ring

theorem cast_mul (a b : Nat) : ((Field25519.mul a b : Nat) : Fp) = (a : Fp) * b := by
  unfold Field25519.mul; rw [cast_mod]; push_cast; ring

theorem cast_sq (a : Nat) : ((Field25519.sq a : Nat) : Fp) = (a : Fp) * a := by
  unfold Field25519.sq; rw [cast_mod]; push_cast; ring

theorem cast_p_sub (b : Nat) : ((p - b % p : Nat) : Fp) = -(b : Fp) := by
  have h : b % p < p := Nat.mod_lt _ p_pos
  have : ((p - b % p : Nat) : Fp) + ((b % p : Nat) : Fp) = 0 := by
    rw [← Nat.cast_add, Nat.sub_add_cancel (Nat.le_of_lt h), ZMod.natCast_self]
  rw [cast_mod] at this
  exact eq_neg_of_add_eq_zero_left this

theorem cast_sub (a b : Nat) : ((Field25519.sub a b : Nat) : Fp) = (a : Fp) - b := by
  unfold Field25519.sub; rw [cast_mod, Nat.cast_add, cast_p_sub]; ring

theorem cast_neg (a : Nat) : ((Field25519.neg a : Nat) : Fp) = -(a : Fp) := by
  unfold Field25519.neg; rw [cast_mod, cast_p_sub]

theorem powAux_cast (a : Nat) : ∀ (fuel e : Nat), e ≤ fuel → ((Field25519.powAux a fuel e : Nat) : Fp) = (a : Fp) ^ e := by
  intro fuel
  induction fuel with
  | zero => intro e h; have : e = 0 := by omega
            subst this; simp [Field25519.powAux]
  | succ f ih =>
    intro e h
    simp only [Field25519.powAux]
    by_cases he : e = 0
    · simp [he]
    · simp only [he, if_false]
      have hrec := ih (e / 2) (by omega)
      have hdecomp : e = 2 * (e / 2) + e % 2 := (Nat.div_add_mod e 2).symm
      by_cases hodd : e % 2 = 1
      · simp only [hodd, if_true]
        rw [cast_mod, Nat.cast_mul, cast_mod, Nat.cast_mul, hrec]
        conv_rhs => rw [hdecomp, hodd, pow_add, pow_mul, pow_one]
        ring
      · have h0 : e % 2 = 0 := by omega
        simp only [hodd, if_false]
        rw [cast_mod, Nat.cast_mul, hrec]
        conv_rhs => rw [hdecomp, h0, Nat.add_zero, pow_mul]
        ring

theorem cast_pow (a e : Nat) : ((Field25519.pow a e : Nat) : Fp) = (a : Fp) ^ e :=
  powAux_cast a e e (Nat.le_refl e)

/-- Spec results are reduced -/
theorem add_lt (a b : Nat) : Field25519.add a b < p := Nat.mod_lt _ p_pos
theorem sub_lt (a b : Nat) : Field25519.sub a b < p := Nat.mod_lt _ p_pos
theorem mul_lt (a b : Nat) : Field25519.mul a b < p := Nat.mod_lt _ p_pos
theorem neg_lt (a : Nat) : Field25519.neg a < p := Nat.mod_lt _ p_pos

/-- reduced naturals are determined by their residue class -/
theorem cast_inj {a b : Nat} (ha : a < p) (hb : b < p) : (a : Fp) = (b : Fp) ↔ a = b := by
  rw [ZMod.natCast_eq_natCast_iff', Nat.mod_eq_of_lt ha, Nat.mod_eq_of_lt hb]

theorem cast_eq_zero {a : Nat} (ha : a < p) : (a : Fp) = 0 ↔ a = 0 := by
  have := cast_inj ha p_pos
  simpa using this

set_option maxRecDepth 100000 in
theorem sqrtM1_sq_nat : Field25519.mul Field25519.sqrtM1 Field25519.sqrtM1 = p - 1 := by decide +kernel

set_option maxRecDepth 100000 in
/-- Euler's criterion, evaluated: `d^((p−1)/2) = −1` -/
theorem d_euler_nat : Field25519.pow Field25519.edwardsD ((p - 1) / 2) = p - 1 := by decide +kernel

section prime
variable [hp : Fact (Nat.Prime p)]

/-- Fermat: `a^(p−2)` is the inverse -/
theorem cast_inv (a : Nat) : ((Field25519.inv a : Nat) : Fp) = (a : Fp)⁻¹ := by
  unfold Field25519.inv
  rw [cast_pow]
  by_cases h : (a : Fp) = 0
  · rw [h, inv_zero, zero_pow (by decide)]
  · have hf := ZMod.pow_card_sub_one_eq_one h
    have : (a : Fp) ^ (p - 2) * (a : Fp) = 1 := by
      rw [← pow_succ]
      have : p - 2 + 1 = p - 1 := by have := p_gt_two; omega
      rw [this]; exact hf
    exact eq_inv_of_mul_eq_one_left this

theorem two_ne_zero : (2 : Fp) ≠ 0 := by
  have h : ((2 : Nat) : Fp) ≠ 0 := by
    rw [Ne, cast_eq_zero (by decide)]; decide
  simpa using h

/-- `sqrtM1² = −1` -/
theorem sqrtM1_sq : ((Field25519.sqrtM1 : Nat) : Fp) ^ 2 = -1 := by
  have h := congrArg (fun n : Nat => (n : Fp)) sqrtM1_sq_nat
  simp only [cast_mul] at h
  rw [pow_two, h]
  have : ((p - 1 : Nat) : Fp) + 1 = 0 := by
    rw [← Nat.cast_one (R := Fp), ← Nat.cast_add, Nat.sub_add_cancel (by decide), ZMod.natCast_self]
  exact eq_neg_of_add_eq_zero_left this

/-- `d` is not a square in GF(p) -/
theorem d_nonsquare : ∀ r : Fp, r ^ 2 ≠ ((Field25519.edwardsD : Nat) : Fp) := by
  intro r hr
  have h := congrArg (fun n : Nat => (n : Fp)) d_euler_nat
  simp only [cast_pow] at h
  rw [← hr, ← pow_mul] at h
  have hm : 2 * ((p - 1) / 2) = p - 1 := by decide
  rw [hm] at h
  have hm1 : ((p - 1 : Nat) : Fp) = -1 := by
    have : ((p - 1 : Nat) : Fp) + 1 = 0 := by
      rw [← Nat.cast_one (R := Fp), ← Nat.cast_add, Nat.sub_add_cancel (by decide), ZMod.natCast_self]
    exact eq_neg_of_add_eq_zero_left this
  rw [hm1] at h
  by_cases hr0 : r = 0
  · rw [hr0, zero_pow (by decide)] at h
    have : (1 : Fp) = 0 := by linear_combination h
    exact one_ne_zero this
  · rw [ZMod.pow_card_sub_one_eq_one hr0] at h
    have : (2 : Fp) = 0 := by linear_combination h
    exact two_ne_zero this

end prime

end Cx.Proofs.EdField
