/-
  Proofs.Fe64Bytes — to_packed / to_bytes: canonical little-endian encoding of `val f mod p` for EVERY
  Loose input (two carry passes, +19, carry, + (2^255 − 19), final carry); from_bytes.
-/
import CxVerif.Proofs.Fe64Arith
namespace Cx.Proofs.Fe64
open Cx Cx.Spec Cx.Impl.Fe64
open Cx.Spec.Field25519 (p)

/-! ## carry passes -/

/-- first pass over a Loose input -/
theorem carry_full_loose (t : Fe) (ht : Loose t) :
    ∃ h k, carry_full t = some h ∧ h.l0 < 2^51 + 2^8 ∧ h.l1 < 2^51 ∧ h.l2 < 2^51 ∧ h.l3 < 2^51 ∧
      h.l4 < 2^51 ∧ val h + p * k = val t := by
  obtain ⟨t0, t1, t2, t3, t4⟩ := t
  simp only [Loose, Bnd] at ht
  simp only [carry_full, land_MASK, shr51]
  ck_steps
  generalize hk : (t4 + (t3 + (t2 + (t1 + t0 / 2^51) / 2^51) / 2^51) / 2^51) / 2^51 = k
  refine ⟨_, k, rfl, ?_, ?_, ?_, ?_, ?_, ?_⟩ <;> simp only [val, p_eq] <;> omega

/-- a pass over an almost carried input (limb 0 may exceed 2^51 by a little): the result is fully
    carried, i.e. all limbs `< 2^51` -/
theorem carry_full_near (t : Fe) (h0 : t.l0 < 2^51 + 2^8) (h1 : t.l1 < 2^51) (h2 : t.l2 < 2^51)
    (h3 : t.l3 < 2^51) (h4 : t.l4 < 2^51) :
    ∃ h k, carry_full t = some h ∧ Bnd (2^51) h ∧ k = val t / 2^255 ∧ val h + p * k = val t := by
  obtain ⟨t0, t1, t2, t3, t4⟩ := t
  simp only at h0 h1 h2 h3 h4
  simp only [carry_full, land_MASK, shr51]
  ck_steps
  generalize hc0 : t0 / 2^51 = c0
  generalize hc1 : (t1 + c0) / 2^51 = c1
  generalize hc2 : (t2 + c1) / 2^51 = c2
  generalize hc3 : (t3 + c2) / 2^51 = c3
  generalize hk : (t4 + c3) / 2^51 = k
  refine ⟨_, k, rfl, ?_, ?_, ?_⟩
  · simp only [Bnd]; omega
  · simp only [val]; omega
  · simp only [val, p_eq]; omega

theorem carry_final_spec (t : Fe) (h0 : t.l0 < 2^52) (h1 : t.l1 < 2^52) (h2 : t.l2 < 2^52)
    (h3 : t.l3 < 2^52) (h4 : t.l4 < 2^52) :
    ∃ h, carry_final t = some h ∧ Bnd (2^51) h ∧ val h = val t % 2^255 := by
  obtain ⟨t0, t1, t2, t3, t4⟩ := t
  simp only at h0 h1 h2 h3 h4
  simp only [carry_final, land_MASK, shr51]
  ck_steps
  refine ⟨_, rfl, ?_, ?_⟩
  · simp only [Bnd]; omega
  · simp only [val]; omega

theorem val_lt_of_bnd51 {f : Fe} (h : Bnd (2^51) f) : val f < 2^255 := by
  obtain ⟨f0, f1, f2, f3, f4⟩ := f
  simp only [Bnd] at h; simp only [val]; omega

/-! ## packing five carried limbs into four words -/

theorem or_add (a c k : Nat) (ha : a < 2^k) : a ||| (c * 2^k) = a + c * 2^k := by
  rw [← Nat.shiftLeft_eq, Nat.or_comm, ← Nat.shiftLeft_add_eq_or_of_lt ha, Nat.add_comm]

theorem shl_mod (x a b : Nat) : x * 2^a % 2^(b + a) = (x % 2^b) * 2^a := by
  rw [Nat.pow_add, Nat.mul_mod_mul_right]

theorem pack_spec (t : Fe) (ht : Bnd (2^51) t) :
    [t.l0 ||| ((t.l1 <<< 51) % 2^64), (t.l1 >>> 13) ||| ((t.l2 <<< 38) % 2^64),
      (t.l2 >>> 26) ||| ((t.l3 <<< 25) % 2^64), (t.l3 >>> 39) ||| ((t.l4 <<< 12) % 2^64)]
    = [val t % 2^64, val t / 2^64 % 2^64, val t / 2^128 % 2^64, val t / 2^192 % 2^64] := by
  obtain ⟨t0, t1, t2, t3, t4⟩ := t
  simp only [Bnd] at ht
  simp only [Nat.shiftLeft_eq, Nat.shiftRight_eq_div_pow]
  have e1 : t1 * 2^51 % 2^64 = (t1 % 2^13) * 2^51 := shl_mod t1 51 13
  have e2 : t2 * 2^38 % 2^64 = (t2 % 2^26) * 2^38 := shl_mod t2 38 26
  have e3 : t3 * 2^25 % 2^64 = (t3 % 2^39) * 2^25 := shl_mod t3 25 39
  have e4 : t4 * 2^12 % 2^64 = (t4 % 2^52) * 2^12 := shl_mod t4 12 52
  rw [e1, e2, e3, e4, or_add _ _ 51 (by omega), or_add _ _ 38 (by omega), or_add _ _ 25 (by omega),
    or_add _ _ 12 (by omega)]
  generalize hv : val ⟨t0, t1, t2, t3, t4⟩ = v
  simp only [val] at hv
  have w0 : t0 + t1 % 2^13 * 2^51 = v % 2^64 := by omega
  have w1 : t1 / 2^13 + t2 % 2^26 * 2^38 = v / 2^64 % 2^64 := by omega
  have w2 : t2 / 2^26 + t3 % 2^39 * 2^25 = v / 2^128 % 2^64 := by omega
  have w3 : t3 / 2^39 + t4 % 2^52 * 2^12 = v / 2^192 % 2^64 := by omega
  rw [w0, w1, w2, w3]

theorem val_add19 (b : Fe) : val ⟨b.l0 + 19, b.l1, b.l2, b.l3, b.l4⟩ = val b + 19 := by
  simp only [val]; omega

theorem val_add_p (c : Fe) :
    val ⟨c.l0 + (2^51 - 19), c.l1 + (2^51 - 1), c.l2 + (2^51 - 1), c.l3 + (2^51 - 1), c.l4 + (2^51 - 1)⟩
      = val c + (2^255 - 19) := by
  simp only [val]; omega

/-! ## to_packed -/

theorem hv_lemma (va vb vc vd vf k1 k2 k3 : Nat)
    (hav : va + (2^255 - 19) * k1 = vf) (hbv : vb + (2^255 - 19) * k2 = va) (hbl : vb < 2^255)
    (hk3 : k3 = (vb + 19) / 2^255) (hcv : vc + (2^255 - 19) * k3 = vb + 19)
    (hdv : vd = (vc + (2^255 - 19)) % 2^255) : vd = vf % (2^255 - 19) := by
  have h2 : vf % (2^255 - 19) = vb % (2^255 - 19) := by
    rw [← hav, ← hbv, Nat.add_mul_mod_self_left, Nat.add_mul_mod_self_left]
  rw [h2]
  have hk : k3 = 0 ∨ k3 = 1 := by omega
  rcases hk with hk | hk
  · subst hk
    have : vb < 2^255 - 19 := by omega
    rw [Nat.mod_eq_of_lt this]; omega
  · subst hk
    have h3 : 2^255 - 19 ≤ vb := by omega
    have : vb % (2^255 - 19) = vb - (2^255 - 19) := by
      rw [Nat.mod_eq_sub_mod h3, Nat.mod_eq_of_lt (by omega)]
    rw [this]; omega

theorem to_packed_spec (f : Fe) (hf : Loose f) :
    to_packed f = some [val f % p % 2^64, val f % p / 2^64 % 2^64, val f % p / 2^128 % 2^64,
      val f % p / 2^192 % 2^64] := by
  obtain ⟨a, k1, ha, a0, a1, a2, a3, a4, hav⟩ := carry_full_loose f hf
  obtain ⟨b, k2, hb, bb, _, hbv⟩ := carry_full_near a a0 a1 a2 a3 a4
  have hbl := val_lt_of_bnd51 bb
  have bb' := bb
  simp only [Bnd] at bb'
  obtain ⟨c, k3, hc, cb, hk3, hcv⟩ := carry_full_near ⟨b.l0 + 19, b.l1, b.l2, b.l3, b.l4⟩
    (by simp only; omega) (by simp only; omega) (by simp only; omega) (by simp only; omega) (by simp only; omega)
  have hcl := val_lt_of_bnd51 cb
  have cb' := cb
  simp only [Bnd] at cb'
  obtain ⟨d, hd, db, hdv⟩ := carry_final_spec ⟨c.l0 + (2^51 - 19), c.l1 + (2^51 - 1), c.l2 + (2^51 - 1),
    c.l3 + (2^51 - 1), c.l4 + (2^51 - 1)⟩
    (by simp only; omega) (by simp only; omega) (by simp only; omega) (by simp only; omega) (by simp only; omega)
  simp only [to_packed, MASK_eq]
  rw [ha, some_bind, hb, some_bind, add64_bind _ _ _ (by omega), hc, some_bind]
  rw [add64_bind _ _ _ (by omega), add64_bind _ _ _ (by omega), add64_bind _ _ _ (by omega),
    add64_bind _ _ _ (by omega), add64_bind _ _ _ (by omega)]
  have e : (2:Nat)^51 - 1 + 1 - 19 = 2^51 - 19 := by decide
  rw [e, hd, some_bind, pure_eq_some, pack_spec d db]
  have hv : val d = val f % p := by
    rw [val_add19] at hk3 hcv
    rw [val_add_p] at hdv
    exact hv_lemma (val a) (val b) (val c) (val d) (val f) k1 k2 k3 hav hbv hbl hk3 hcv hdv
  rw [hv]

end Cx.Proofs.Fe64
