/-
  Proofs.EdwardsSpec — Spec/Edwards.lean (points with `Nat` coordinates) seen through `ZMod p`:
  `onCurve`, `add`, `neg`, `zero` correspond to the field-level notions of Proofs/EdwardsAlgebra.lean; the
  denominators of the addition law never vanish on curve points (completeness, from `d` non-square and
  `sqrtM1² = −1`); commutativity, neutral element and inverses of the affine law are PROVED here.

  NOT proved here (explicit hypothesis `EdwardsGroupLaw`): closure of the curve under `add` and associativity.
  From that hypothesis the curve points form a commutative group (`curveGroup`) and `Spec.Edwards.smul` is the
  `ℕ`-scalar multiplication of that group (`smul_eq_nsmul`).

  Everything that divides needs `Nat.Prime p` (as `[Fact (Nat.Prime p)]`).
-/
import CxVerif.Proofs.EdField
import CxVerif.Proofs.EdwardsAlgebra
import Mathlib.Algebra.Group.MinimalAxioms
import Mathlib.Algebra.Module.NatInt
namespace Cx.Proofs.EdSpec
open Cx.Spec Cx.Proofs.EdField
open Cx.Spec.Edwards (Point add neg zero onCurve smul smulAux B double)
open Cx.Spec.Field25519 (p)

/-- `d` in the field -/
noncomputable def dF : Fp := ((Edwards.d : Nat) : Fp)

/-- membership as a proposition -/
def OnCurve (P : Point) : Prop := onCurve P = true

section prime0
variable [hp : Fact (Nat.Prime p)]

theorem onCurve_iff (P : Point) : OnCurve P ↔ P.x < p ∧ P.y < p ∧ EdAlg.OnCurve dF (P.x : Fp) (P.y : Fp) := by
  unfold OnCurve onCurve EdAlg.OnCurve dF
  simp only [Bool.and_eq_true, beq_iff_eq]
  constructor
  · rintro ⟨⟨hx, hy⟩, h⟩
    refine ⟨of_decide_eq_true hx, of_decide_eq_true hy, ?_⟩
    have := congrArg (fun n : Nat => (n : Fp)) h
    simp only [cast_sub, cast_add, cast_mul, Nat.cast_one] at this
    linear_combination this
  · rintro ⟨hx, hy, h⟩
    refine ⟨⟨decide_eq_true hx, decide_eq_true hy⟩, ?_⟩
    rw [← cast_inj (sub_lt _ _) (add_lt _ _)]
    simp only [cast_sub, cast_add, cast_mul, Nat.cast_one]
    linear_combination h

end prime0

set_option maxRecDepth 100000 in
theorem zero_lt : zero.x < p ∧ zero.y < p := by decide +kernel

set_option maxRecDepth 100000 in
theorem zero_onCurve : OnCurve zero := by unfold OnCurve; decide +kernel

/-- coordinates of a sum are reduced -/
theorem add_x_lt (P Q : Point) : (add P Q).x < p := mul_lt _ _
theorem add_y_lt (P Q : Point) : (add P Q).y < p := mul_lt _ _

theorem fmul_comm (a b : Nat) : Field25519.mul a b = Field25519.mul b a := by
  unfold Field25519.mul; rw [Nat.mul_comm]
theorem fadd_comm (a b : Nat) : Field25519.add a b = Field25519.add b a := by
  unfold Field25519.add; rw [Nat.add_comm]

theorem add_comm' (P Q : Point) : add P Q = add Q P := by
  unfold add
  rw [fmul_comm Q.x P.x, fmul_comm Q.y P.y,
    fadd_comm (Field25519.mul Q.x P.y) (Field25519.mul P.x Q.y)]

theorem edp : Edwards.p = p := rfl

section prime
variable [hp : Fact (Nat.Prime p)]

theorem cast_add_x (P Q : Point) :
    ((add P Q).x : Fp) = EdAlg.addX dF (P.x : Fp) (P.y : Fp) (Q.x : Fp) (Q.y : Fp) := by
  unfold add EdAlg.addX dF
  simp only [cast_mul, cast_add, cast_inv, Nat.cast_one]
  rw [div_eq_mul_inv]; ring

theorem cast_add_y (P Q : Point) :
    ((add P Q).y : Fp) = EdAlg.addY dF (P.x : Fp) (P.y : Fp) (Q.x : Fp) (Q.y : Fp) := by
  unfold add EdAlg.addY dF
  simp only [cast_mul, cast_add, cast_sub, cast_inv, Nat.cast_one]
  rw [div_eq_mul_inv]; ring

/-- completeness on Spec points -/
theorem denoms (P Q : Point) (hP : OnCurve P) (hQ : OnCurve Q) :
    1 + dF * (P.x : Fp) * (Q.x : Fp) * (P.y : Fp) * (Q.y : Fp) ≠ 0 ∧
    1 - dF * (P.x : Fp) * (Q.x : Fp) * (P.y : Fp) * (Q.y : Fp) ≠ 0 :=
  EdAlg.denoms_ne_zero two_ne_zero sqrtM1_sq d_nonsquare ((onCurve_iff P).1 hP).2.2 ((onCurve_iff Q).1 hQ).2.2

/-- two points with reduced coordinates are equal iff their coordinates agree in the field -/
theorem point_ext {P Q : Point} (hPx : P.x < p) (hPy : P.y < p) (hQx : Q.x < p) (hQy : Q.y < p)
    (hx : (P.x : Fp) = (Q.x : Fp)) (hy : (P.y : Fp) = (Q.y : Fp)) : P = Q := by
  obtain ⟨a, b⟩ := P; obtain ⟨c, e⟩ := Q
  simp only at *
  rw [(cast_inj hPx hQx).1 hx, (cast_inj hPy hQy).1 hy]

theorem add_zero' (P : Point) (hP : OnCurve P) : add P zero = P := by
  obtain ⟨hx, hy, _⟩ := (onCurve_iff P).1 hP
  apply point_ext (add_x_lt _ _) (add_y_lt _ _) hx hy
  · rw [cast_add_x]; unfold EdAlg.addX zero; simp
  · rw [cast_add_y]; unfold EdAlg.addY zero; simp

theorem neg_onCurve (P : Point) (hP : OnCurve P) : OnCurve (neg P) := by
  obtain ⟨hx, hy, h⟩ := (onCurve_iff P).1 hP
  rw [onCurve_iff]
  refine ⟨neg_lt _, Nat.mod_lt _ p_pos, ?_⟩
  unfold neg
  simp only [cast_neg, edp, cast_mod]
  unfold EdAlg.OnCurve at *
  linear_combination h

theorem add_neg' (P : Point) (hP : OnCurve P) : add P (neg P) = zero := by
  obtain ⟨hx, hy, h⟩ := (onCurve_iff P).1 hP
  have hd := denoms P P hP hP
  apply point_ext (add_x_lt _ _) (add_y_lt _ _) zero_lt.1 zero_lt.2
  · rw [cast_add_x]; unfold EdAlg.addX neg zero; simp only [cast_neg, edp, cast_mod]
    rw [div_eq_iff]
    · push_cast; ring
    · have := hd.2
      intro h0; apply this; linear_combination h0
  · rw [cast_add_y]; unfold EdAlg.addY neg zero; simp only [cast_neg, edp, cast_mod]
    unfold EdAlg.OnCurve at h
    rw [div_eq_iff]
    · push_cast; linear_combination h
    · have := hd.1
      intro h0; apply this; linear_combination h0

end prime

/-- The part of the group law of edwards25519 that is NOT proved in this development: the curve is closed under
    the affine addition and the addition is associative on curve points.  (Both are true; commutativity, the
    neutral element and inverses are proved above.) -/
structure EdwardsGroupLaw : Prop where
  closed : ∀ P Q : Point, OnCurve P → OnCurve Q → OnCurve (add P Q)
  assoc : ∀ P Q R : Point, OnCurve P → OnCurve Q → OnCurve R → add (add P Q) R = add P (add Q R)

/-- curve points -/
def CurvePoint := { P : Point // OnCurve P }

section group
variable [hp : Fact (Nat.Prime p)] (G : EdwardsGroupLaw)

def cadd (P Q : CurvePoint) : CurvePoint := ⟨add P.1 Q.1, G.closed _ _ P.2 Q.2⟩
def czero : CurvePoint := ⟨zero, zero_onCurve⟩
def cneg (P : CurvePoint) : CurvePoint := ⟨neg P.1, neg_onCurve _ P.2⟩

theorem cadd_assoc (P Q R : CurvePoint) : cadd G (cadd G P Q) R = cadd G P (cadd G Q R) :=
  Subtype.ext (G.assoc _ _ _ P.2 Q.2 R.2)
theorem czero_cadd (P : CurvePoint) : cadd G czero P = P :=
  Subtype.ext (by unfold cadd czero; simp only; rw [add_comm', add_zero' _ P.2])
theorem cneg_cadd (P : CurvePoint) : cadd G (cneg P) P = czero :=
  Subtype.ext (by unfold cadd czero cneg; simp only; rw [add_comm', add_neg' _ P.2])
theorem cadd_comm (P Q : CurvePoint) : cadd G P Q = cadd G Q P := Subtype.ext (add_comm' _ _)

theorem cadd_czero (P : CurvePoint) : cadd G P czero = P := by rw [cadd_comm, czero_cadd]

set_option maxRecDepth 100000 in
/-- the commutative group of curve points, given the group-law hypothesis -/
noncomputable def curveGroup : AddCommGroup CurvePoint :=
  letI : Add CurvePoint := ⟨cadd G⟩
  letI : Zero CurvePoint := ⟨czero⟩
  letI : Neg CurvePoint := ⟨cneg⟩
  { AddGroup.ofLeftAxioms (cadd_assoc G) (czero_cadd G) (cneg_cadd G) with
    add_comm := cadd_comm G }

theorem val_add (P Q : CurvePoint) : (letI := curveGroup G; (P + Q : CurvePoint)).1 = add P.1 Q.1 := rfl
theorem val_zero : (letI := curveGroup G; (0 : CurvePoint)).1 = zero := rfl
theorem val_neg (P : CurvePoint) : (letI := curveGroup G; (-P : CurvePoint)).1 = neg P.1 := rfl

set_option maxRecDepth 100000 in
/-- the double-and-add loop of the Spec computes `Q + n • P` in the group -/
theorem smulAux_eq (f : Nat) : ∀ (n : Nat) (P Q : CurvePoint), n ≤ f →
    smulAux f n P.1 Q.1 = (letI := curveGroup G; (Q + n • P : CurvePoint)).1 := by
  letI := curveGroup G
  induction f with
  | zero =>
    intro n P Q h
    have : n = 0 := by omega
    subst this
    simp [smulAux]
  | succ f ih =>
    intro n P Q h
    simp only [smulAux]
    by_cases hn : n = 0
    · subst hn; simp
    · simp only [hn, if_false]
      have hdecomp : n = 2 * (n / 2) + n % 2 := (Nat.div_add_mod n 2).symm
      by_cases hodd : n % 2 = 1
      · simp only [hodd, if_true]
        have := ih (n / 2) (P + P) (Q + P) (by omega)
        rw [val_add G P P, val_add G Q P] at this
        rw [this]
        congr 1
        conv_rhs => rw [hdecomp, hodd]
        rw [add_nsmul, mul_nsmul, one_nsmul, two_nsmul]
        abel
      · have h0 : n % 2 = 0 := by omega
        simp only [hodd, if_false]
        have := ih (n / 2) (P + P) Q (by omega)
        rw [val_add G P P] at this
        rw [this]
        congr 1
        conv_rhs => rw [hdecomp, h0, Nat.add_zero]
        rw [mul_nsmul, two_nsmul]

/-- `Spec.Edwards.smul` is the scalar multiplication of the group (under the group-law hypothesis) -/
theorem smul_eq_nsmul (n : Nat) (P : CurvePoint) :
    smul n P.1 = (letI := curveGroup G; (n • P : CurvePoint)).1 := by
  let _ := curveGroup G
  have := smulAux_eq G n n P 0 (Nat.le_refl n)
  rw [val_zero G] at this
  unfold smul
  rw [this, zero_add]

include G in
theorem smul_onCurve (n : Nat) (P : Point) (hP : OnCurve P) : OnCurve (smul n P) := by
  rw [smul_eq_nsmul G n ⟨P, hP⟩]
  exact (letI := curveGroup G; (n • (show CurvePoint from ⟨P, hP⟩) : CurvePoint)).2

end group

end Cx.Proofs.EdSpec
