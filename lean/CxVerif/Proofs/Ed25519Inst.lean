/-
  Proofs.Ed25519Inst — the scalar-unit interfaces `ScalarFacts` and `CanonicalFact` used by the Ed25519 theorems are
  THEOREMS: instantiated from unit scalar64's Proofs/Scalar64{Bytes,Digits,Mul}.lean.
-/
import CxVerif.Proofs.Ed25519Verify
import CxVerif.Proofs.Scalar64Digits
import CxVerif.Proofs.Scalar64Mul
namespace Cx.Proofs.Ed25519Inst
open Cx Cx.Spec Cx.Impl.Scalar64 Cx.Proofs.Ed25519Sign Cx.Proofs.Ed25519Verify Cx.Proofs.GeComb
open Cx.Spec.ScalarL (L evalDigits)

theorem toArr_some (n : Nat) (b : Bytes) (h : b.length = n) :
    ∃ v : Vector UInt8 n, toArr n b = some v ∧ v.toList = b := by
  unfold toArr
  rw [dif_pos h]
  exact ⟨_, rfl, by simp [Vector.toList]⟩

theorem nibblesOf (s : Scalar) (h : Proofs.Scalar64.Inv s) (ha : s.val < 2 ^ 255) : NibblesOf s s.val := by
  have hn := Proofs.Scalar64.nibbles_eq_radix16 s h
  unfold Spec.ScalarL.radix16 at hn
  unfold NibblesOf
  rw [hn]
  refine ⟨?_, ?_, ?_⟩
  · intro e he
    obtain ⟨d, hd, rfl⟩ := List.mem_map.1 he
    obtain ⟨i, hi, rfl⟩ := List.getElem_of_mem hd
    rw [Proofs.Scalar64.digits_getElem]
    have : s.val / 16 ^ i % 16 < 16 := Nat.mod_lt _ (by decide)
    constructor
    · exact Int.natCast_nonneg _
    · show ((s.val / 16 ^ i % 16 : Nat) : Int) ≤ 15
      omega
  · intro t ht
    rw [List.getElem?_map] at ht
    have hl : 63 < (Spec.ScalarL.digits 16 64 s.val).length := by rw [Proofs.Scalar64.digits_length]; decide
    rw [List.getElem?_eq_getElem hl, Proofs.Scalar64.digits_getElem] at ht
    simp only [Option.map_some, Option.some.injEq] at ht
    rw [← ht]
    have h1 : s.val / 16 ^ 63 < 8 := by
      rw [Nat.div_lt_iff_lt_mul (by decide)]
      exact Nat.lt_of_lt_of_le ha (by decide)
    show ((s.val / 16 ^ 63 % 16 : Nat) : Int) ≤ 7
    omega
  · rw [Proofs.Scalar64.evalDigits_digits, Nat.mod_eq_of_lt (Nat.lt_of_lt_of_le ha (by decide))]

/-- unit scalar64's theorems in the shape of `ScalarFacts` -/
theorem scalarFacts : ScalarFacts where
  fromBytes := by
    intro b hb
    obtain ⟨v, hv, hl⟩ := toArr_some 32 b hb
    refine ⟨from_bytes v, ?_, (Proofs.Scalar64.from_bytes_spec v).2, ?_⟩
    · unfold fromBytes; rw [hv]; rfl
    · rw [(Proofs.Scalar64.from_bytes_spec v).1, hl]
  reduceWide := by
    intro h hh
    obtain ⟨v, hv, hl⟩ := toArr_some 64 h hh
    obtain ⟨o, e, ov, oi⟩ := Proofs.Scalar64.reduce_from_wide_bytes_spec v
    refine ⟨o, ?_, oi, ?_⟩
    · unfold reduceFromWideBytes; rw [hv]; exact e
    · rw [ov, hl]
  muladd := fun a b c ha hb hc hcL => Proofs.Scalar64.muladd_spec a b c ha hb hc hcL
  toBytes := fun s hs => Proofs.Scalar64.to_bytes_spec s hs
  nibbles := fun s hs ha => nibblesOf s hs ha

/-- `from_bytes_canonical` accepts exactly the values below L -/
theorem canonicalFact : CanonicalFact := by
  intro b hb
  obtain ⟨v, hv, hl⟩ := toArr_some 32 b hb
  refine ⟨from_bytes v, ?_, (Proofs.Scalar64.from_bytes_spec v).2, ?_, ?_⟩
  · unfold fromBytes; rw [hv]; rfl
  · rw [(Proofs.Scalar64.from_bytes_spec v).1, hl]
  · unfold fromBytesCanonical; rw [hv, Option.bind_some, Proofs.Scalar64.from_bytes_canonical_spec v, hl]

end Cx.Proofs.Ed25519Inst
