/-
  Proofs.Argon2Hash — the BLAKE2b-based functions of Argon2: chains of `Context` / `ContextDyn` calls = `H^x` of the
  concatenated input (through the refinement relation `Rel` of Proofs.Blake2), `hprime` = RFC 9106 3.3 H' for
  every output length, `hprime_block_init` = H'^1024, `H0::new` = the H_0 field layout.  Core Lean only.
-/
import CxVerif.Proofs.Blake2
import CxVerif.Impl.Argon2
namespace Cx.Proofs.Argon2
open Cx Cx.Spec.Argon2
open Cx.Proofs.Blake2 (Rel good_b impl_b_eq_spec_b fits_wrapping length_zeros)
open Cx.Impl.Blake2 (Ctx Context ContextDyn setSlice)

/-! ### BLAKE2b call chains -/

/-- `c` is a BLAKE2b context with digest length `nn` that has absorbed `data` -/
def RelN (nn : Nat) (c : Ctx UInt64) (data : Bytes) : Prop :=
  Rel Spec.Blake2.b c (Spec.Blake2.init Spec.Blake2.b nn 0) 0 data

theorem H_length (n : Nat) (hn : n ≤ 64) (a : Bytes) : (H n a).length = n := by
  unfold H Spec.Blake2.blake2b Spec.Blake2.blake2 Spec.Blake2.output
  simp only [List.length_take, Blake2.hbytes_length]
  have : Spec.Blake2.wbytes UInt64 = 8 := rfl
  omega

theorem ctx_new_rel (nn : Nat) (hn : 0 < nn ∧ nn ≤ 64) :
    ∃ c0, Ctx.new_keyed Impl.Blake2.b nn [] = some c0 ∧ RelN nn c0 [] := by
  rw [impl_b_eq_spec_b]
  refine ⟨_, Blake2.new_keyed_eq Spec.Blake2.b nn [] hn (by decide), ?_⟩
  have := Blake2.newState_rel Spec.Blake2.b good_b nn [] hn.2 (by decide)
  simpa [RelN, Spec.Blake2.keyBlock] using this

theorem ctx512_new : ∃ c0, Context.new Impl.Blake2.b 512 = some c0 ∧ RelN 64 c0 [] := by
  obtain ⟨c0, h1, h2⟩ := ctx_new_rel 64 (by decide)
  refine ⟨c0, ?_, h2⟩
  unfold Context.new Context.new_keyed
  rw [if_neg (by rw [impl_b_eq_spec_b]; decide), if_neg (by rw [impl_b_eq_spec_b]; decide)]
  exact h1

theorem ctx_update (nn : Nat) (c : Ctx UInt64) (data d : Bytes) (hr : RelN nn c data) :
    ∃ c', Context.update Impl.Blake2.b .wrapping c d = some c' ∧ RelN nn c' (data ++ d) := by
  unfold Context.update
  rw [impl_b_eq_spec_b]
  exact Rel.update Spec.Blake2.b good_b .wrapping c _ 0 data d hr (fits_wrapping _ _)

theorem rel_finalize (nn : Nat) (hn : nn ≤ 64) (c : Ctx UInt64) (data : Bytes) (hr : RelN nn c data) :
    Ctx.finalize_at Impl.Blake2.b .wrapping c nn nn = some (H nn data) := by
  rw [impl_b_eq_spec_b, Rel.finalize_at Spec.Blake2.b good_b .wrapping c _ 0 data nn hn hr (fits_wrapping _ _)]
  unfold H Spec.Blake2.blake2b
  rw [Blake2.blake2_eq_stream Spec.Blake2.b good_b.bb_pos nn [] data (by decide)]
  rfl

theorem ctx512_finalize_at (c : Ctx UInt64) (data : Bytes) (hr : RelN 64 c data) :
    Context.finalize_at Impl.Blake2.b .wrapping 512 c 64 = some (H 64 data) :=
  rel_finalize 64 (by decide) c data hr

theorem ctx512_finalize (c : Ctx UInt64) (data : Bytes) (hr : RelN 64 c data) :
    Context.finalize Impl.Blake2.b .wrapping 512 c = some (H 64 data) :=
  rel_finalize 64 (by decide) c data hr

theorem dyn_new (n : Nat) (hn : 0 < n ∧ n ≤ 64) :
    ∃ c0, ContextDyn.new Impl.Blake2.b n = some c0 ∧ c0.outlen = n ∧ RelN n c0.ctx [] := by
  obtain ⟨c0, h1, h2⟩ := ctx_new_rel n hn
  refine ⟨{ ctx := c0, outlen := n }, ?_, rfl, h2⟩
  unfold ContextDyn.new ContextDyn.new_keyed
  rw [if_neg (by rw [impl_b_eq_spec_b]; exact fun h => h hn), h1]

theorem dyn_new_zero : ContextDyn.new Impl.Blake2.b 0 = none := by
  unfold ContextDyn.new
  rw [if_pos (by omega)]

theorem dyn_update (nn : Nat) (c : ContextDyn UInt64) (data d : Bytes) (hr : RelN nn c.ctx data) :
    ∃ c', c.update Impl.Blake2.b .wrapping d = some c' ∧ c'.outlen = c.outlen ∧ RelN nn c'.ctx (data ++ d) := by
  obtain ⟨x, h1, h2⟩ := ctx_update nn c.ctx data d hr
  refine ⟨{ c with ctx := x }, ?_, rfl, h2⟩
  unfold ContextDyn.update ContextDyn.update_mut
  unfold Context.update at h1
  rw [h1]

theorem dyn_finalize_at (nn : Nat) (hn : nn ≤ 64) (c : ContextDyn UInt64) (data : Bytes) (ho : c.outlen = nn)
    (hr : RelN nn c.ctx data) : c.finalize_at Impl.Blake2.b .wrapping nn = some (H nn data) := by
  unfold ContextDyn.finalize_at
  rw [ho]
  exact rel_finalize nn hn c.ctx data hr

/-- `Context::<512>::new().update(v).finalize_at(out64)`: the three calls succeed and yield `H^64(v)` -/
theorem step64 (v : Bytes) : ∃ c0 c1, Context.new Impl.Blake2.b 512 = some c0 ∧
    Context.update Impl.Blake2.b .wrapping c0 v = some c1 ∧
    Context.finalize_at Impl.Blake2.b .wrapping 512 c1 64 = some (H 64 v) := by
  obtain ⟨c0, h0, r0⟩ := ctx512_new
  obtain ⟨c1, h1, r1⟩ := ctx_update 64 c0 [] v r0
  exact ⟨c0, c1, h0, h1, by simpa using ctx512_finalize_at c1 _ r1⟩

/-! ### the W/V chain of H' -/

/-- starting from `V_i`: (`W_{i+1} || … || W_{i+n}`, `V_{i+n}`) -/
def chainW : Nat → Bytes → Bytes × Bytes
  | 0, V => ([], V)
  | n + 1, V => ((H 64 V).take 32 ++ (chainW n (H 64 V)).1, (chainW n (H 64 V)).2)

theorem Hchain_eq (last : Nat) : ∀ (n : Nat) (V : Bytes),
    Hchain last n V = V.take 32 ++ (chainW n V).1 ++ H last (chainW n V).2
  | 0, V => by simp [Hchain, chainW]
  | n + 1, V => by simp [Hchain, chainW, Hchain_eq last n (H 64 V)]

theorem chainW_length : ∀ (n : Nat) (V : Bytes), (chainW n V).1.length = 32 * n ∧ ((chainW n V).2.length = 64 ∨ n = 0)
  | 0, V => by simp [chainW]
  | n + 1, V => by
    obtain ⟨h1, h2⟩ := chainW_length n (H 64 V)
    have := H_length 64 (by decide) V
    simp only [chainW, List.length_append, List.length_take, h1, this]
    refine ⟨by omega, Or.inl ?_⟩
    rcases h2 with h | h
    · exact h
    · subst h; simpa [chainW] using this

theorem chainW_snd_length (n : Nat) (V : Bytes) (hV : V.length = 64) : (chainW n V).2.length = 64 := by
  rcases (chainW_length n V).2 with h | h
  · exact h
  · subst h; simpa [chainW] using hV

theorem setSlice_acc (acc src : Bytes) (z : Nat) (h : src.length ≤ z) :
    setSlice (acc ++ zeros z) acc.length src = acc ++ src ++ zeros (z - src.length) := by
  unfold setSlice
  rw [List.take_left' rfl]
  congr 1
  rw [List.drop_append]
  simp [zeros]

theorem setSlice_acc' (acc src : Bytes) (z pos : Nat) (hpos : pos = acc.length) (h : src.length ≤ z) :
    setSlice (acc ++ zeros z) pos src = acc ++ src ++ zeros (z - src.length) := by
  subst hpos; exact setSlice_acc acc src z h

theorem setSlice_zero (src : Bytes) (z : Nat) (h : src.length ≤ z) :
    setSlice (zeros z) 0 src = ([] ++ src) ++ zeros (z - src.length) :=
  setSlice_acc [] src z h

/-- the `while bytes > 64` loop of `hprime`: n iterations append `W_2 … W_{n+1}` -/
theorem hprime_loop_eq (last : Nat) (hl : 32 < last ∧ last ≤ 64) : ∀ (n fuel : Nat) (acc V : Bytes), n ≤ fuel →
    V.length = 64 →
    Impl.Argon2.hprime_loop fuel (acc ++ zeros (last + 32 * n)) V (last + 32 * n) acc.length =
      some (acc ++ (chainW n V).1 ++ zeros last, (chainW n V).2, last, acc.length + 32 * n)
  | 0, fuel, acc, V, _, _ => by
    cases fuel with
    | zero => simp [Impl.Argon2.hprime_loop, chainW]
    | succ f =>
      unfold Impl.Argon2.hprime_loop
      rw [if_neg (by omega)]
      simp [chainW]
  | n + 1, fuel, acc, V, hf, hV => by
    obtain ⟨f, rfl⟩ : ∃ f, fuel = f + 1 := ⟨fuel - 1, by omega⟩
    unfold Impl.Argon2.hprime_loop
    obtain ⟨c0, c1, e0, e1, e2⟩ := step64 V
    rw [if_pos (by omega), hV, e0]; simp only []; rw [e1]; simp only []; rw [e2]; simp only []
    have hH := H_length 64 (by decide) V
    rw [if_neg (by simp [hH, length_zeros]; omega)]
    rw [setSlice_acc _ _ _ (by simp [hH]; omega)]
    have h1 : last + 32 * (n + 1) - ((H 64 V).take 32).length = last + 32 * n := by simp [hH]; omega
    have h2 : last + 32 * (n + 1) - 32 = last + 32 * n := by omega
    have h3 : acc.length + 32 = (acc ++ (H 64 V).take 32).length := by simp [hH]
    rw [h1, h2, h3, hprime_loop_eq last hl n f _ _ (by omega) hH]
    simp [chainW, hH]; omega

/-- the `for _ in 0..29` loop of `hprime_block_init` -/
theorem hprime_block_init_loop_eq : ∀ (n z : Nat) (acc V : Bytes), 32 * n ≤ z → V.length = 64 →
    Impl.Argon2.hprime_block_init_loop n (acc ++ zeros z) V acc.length =
      some (acc ++ (chainW n V).1 ++ zeros (z - 32 * n), (chainW n V).2, acc.length + 32 * n)
  | 0, z, acc, V, _, _ => by simp [Impl.Argon2.hprime_block_init_loop, chainW]
  | n + 1, z, acc, V, hz, hV => by
    unfold Impl.Argon2.hprime_block_init_loop
    obtain ⟨c0, c1, e0, e1, e2⟩ := step64 V
    rw [hV, e0]; simp only []; rw [e1]; simp only []; rw [e2]; simp only []
    have hH := H_length 64 (by decide) V
    rw [if_neg (by simp [hH, length_zeros]; omega)]
    rw [setSlice_acc _ _ _ (by simp [hH]; omega)]
    have h3 : acc.length + 32 = (acc ++ (H 64 V).take 32).length := by simp [hH]
    rw [h3, hprime_block_init_loop_eq n _ _ _ (by simp [hH]; omega) hH]
    simp [chainW, hH]
    constructor
    · congr 1; omega
    · omega

theorem hprime_loop_eq' (last : Nat) (hl : 32 < last ∧ last ≤ 64) (n fuel : Nat) (acc V : Bytes) (pos : Nat)
    (hpos : pos = acc.length) (hf : n ≤ fuel) (hV : V.length = 64) :
    Impl.Argon2.hprime_loop fuel (acc ++ zeros (last + 32 * n)) V (last + 32 * n) pos =
      some (acc ++ (chainW n V).1 ++ zeros last, (chainW n V).2, last, acc.length + 32 * n) := by
  subst hpos; exact hprime_loop_eq last hl n fuel acc V hf hV

theorem hprime_block_init_loop_eq' (n z : Nat) (acc V : Bytes) (pos : Nat) (hpos : pos = acc.length)
    (hz : 32 * n ≤ z) (hV : V.length = 64) :
    Impl.Argon2.hprime_block_init_loop n (acc ++ zeros z) V pos =
      some (acc ++ (chainW n V).1 ++ zeros (z - 32 * n), (chainW n V).2, acc.length + 32 * n) := by
  subst hpos; exact hprime_block_init_loop_eq n z acc V hz hV

/-! ### hprime = H' -/

theorem last_bounds (T : Nat) (hT : 64 < T) :
    1 ≤ (T + 31) / 32 - 2 ∧ 32 < T - 32 * ((T + 31) / 32 - 2) ∧ T - 32 * ((T + 31) / 32 - 2) ≤ 64 ∧
    T - 32 = (T - 32 * ((T + 31) / 32 - 2)) + 32 * ((T + 31) / 32 - 2 - 1) := by omega

/-- `hprime` = RFC 9106 3.3 `H'^T` for EVERY output length 1 ≤ T < 2^32 (≤ 64: direct; otherwise 32-byte strides
    of the 64-byte chain and the final `H^(T−32r)`); every slice operation in range -/
theorem hprime_eq (T : Nat) (A : Bytes) (hT : 1 ≤ T) (hT2 : T < 2 ^ 32) :
    Impl.Argon2.hprime T A = some (Hprime T A) := by
  unfold Impl.Argon2.hprime Hprime
  have hmod : T % 2 ^ 32 = T := Nat.mod_eq_of_lt hT2
  by_cases h64 : T ≤ 64
  · rw [if_pos h64, if_pos h64, hmod]
    obtain ⟨c0, e0, o0, r0⟩ := dyn_new T ⟨by omega, h64⟩
    obtain ⟨c1, e1, o1, r1⟩ := dyn_update T c0 [] (natToLE 4 T) r0
    obtain ⟨c2, e2, o2, r2⟩ := dyn_update T c1 _ A r1
    rw [e0]; simp only []; rw [e1]; simp only []; rw [e2]; simp only []
    rw [dyn_finalize_at T h64 c2 _ (by rw [o2, o1, o0]) r2]
    rfl
  · rw [if_neg h64, if_neg h64, hmod]
    obtain ⟨hr1, hl1, hl2, hb⟩ := last_bounds T (by omega)
    generalize hr : (T + 31) / 32 - 2 = r at *
    generalize hlast : T - 32 * r = last at *
    obtain ⟨c0, e0, r0⟩ := ctx512_new
    obtain ⟨c1, e1, r1⟩ := ctx_update 64 c0 [] (natToLE 4 T) r0
    obtain ⟨c2, e2, r2⟩ := ctx_update 64 c1 _ A r1
    rw [e0]; simp only []; rw [e1]; simp only []; rw [e2]; simp only []
    rw [ctx512_finalize c2 _ r2]
    simp only [List.nil_append, LE32]
    generalize hV1 : H 64 (natToLE 4 T ++ A) = V1
    have hV : V1.length = 64 := by rw [← hV1]; exact H_length 64 (by decide) _
    rw [if_neg (by simp [hV, length_zeros]; omega)]
    rw [setSlice_zero _ _ (by simp [hV]; omega)]
    have h1 : T - (V1.take 32).length = last + 32 * (r - 1) := by simp [hV]; omega
    have h2 : (32 : Nat) = (([] : Bytes) ++ V1.take 32).length := by simp [hV]
    rw [h1, hb, hprime_loop_eq' last ⟨hl1, hl2⟩ (r - 1) _ _ V1 32 h2 (by omega) hV]
    simp only []
    obtain ⟨d0, f0, p0, s0⟩ := dyn_new last ⟨by omega, hl2⟩
    have hVr := chainW_snd_length (r - 1) V1 hV
    obtain ⟨d1, f1, p1, s1⟩ := dyn_update last d0 [] (chainW (r - 1) V1).2 s0
    rw [f0]; simp only []; rw [f1]; simp only []
    have hWl := (chainW_length (r - 1) V1).1
    rw [if_neg (by simp [hV, hWl, length_zeros]; omega)]
    rw [dyn_finalize_at last hl2 d1 _ (by rw [p1, p0]) s1]
    simp only [List.nil_append]
    rw [setSlice_acc' _ _ _ _ (by simp [hV, hWl]) (by rw [H_length last hl2]; exact Nat.le_refl _), Hchain_eq]
    simp [H_length last hl2, zeros, hlast]

/-- a zero-length output is refused (BLAKE2b has no 0-byte digest) -/
theorem hprime_zero (A : Bytes) : Impl.Argon2.hprime 0 A = none := by
  unfold Impl.Argon2.hprime
  rw [if_pos (by omega), dyn_new_zero]

/-- `hprime_block_init` = `H'^1024(h0 || LE32(col) || LE32(lane))` -/
theorem hprime_block_init_eq (h0 : Bytes) (col lane : Nat) :
    Impl.Argon2.hprime_block_init h0 col lane = some (Hprime 1024 (h0 ++ LE32 col ++ LE32 lane)) := by
  unfold Impl.Argon2.hprime_block_init Hprime
  rw [if_neg (by decide)]
  obtain ⟨c0, e0, r0⟩ := ctx512_new
  obtain ⟨c1, e1, r1⟩ := ctx_update 64 c0 [] (natToLE 4 1024) r0
  obtain ⟨c2, e2, r2⟩ := ctx_update 64 c1 _ h0 r1
  obtain ⟨c3, e3, r3⟩ := ctx_update 64 c2 _ (natToLE 4 col) r2
  obtain ⟨c4, e4, r4⟩ := ctx_update 64 c3 _ (natToLE 4 lane) r3
  rw [e0]; simp only []; rw [e1]; simp only []; rw [e2]; simp only []; rw [e3]; simp only []; rw [e4]; simp only []
  rw [ctx512_finalize c4 _ r4]
  simp only [List.nil_append]
  have hin : natToLE 4 1024 ++ h0 ++ natToLE 4 col ++ natToLE 4 lane = LE32 1024 ++ (h0 ++ LE32 col ++ LE32 lane) := by
    simp [LE32, List.append_assoc]
  rw [hin]
  generalize hV1 : H 64 (LE32 1024 ++ (h0 ++ LE32 col ++ LE32 lane)) = V1
  have hV : V1.length = 64 := by rw [← hV1]; exact H_length 64 (by decide) _
  rw [if_neg (by simp [hV])]
  rw [setSlice_zero _ _ (by simp [hV])]
  have h2 : (32 : Nat) = (([] : Bytes) ++ V1.take 32).length := by simp [hV]
  rw [hprime_block_init_loop_eq' 29 _ _ V1 32 h2 (by simp [hV]) hV]
  simp only []
  have hVr := chainW_snd_length 29 V1 hV
  obtain ⟨d1, f1, g1⟩ := ctx_update 64 c0 [] (chainW 29 V1).2 r0
  rw [f1]; simp only []
  have hWl := (chainW_length 29 V1).1
  rw [if_neg (by simp [hV, hWl, length_zeros])]
  rw [ctx512_finalize_at d1 _ g1]
  simp only [List.nil_append]
  rw [setSlice_acc' _ _ _ _ (by simp [hV, hWl]) (by rw [H_length 64 (by decide)]; simp [hV])]
  show _ = some (Hchain 64 29 V1)
  rw [Hchain_eq]
  simp [H_length 64, hV, zeros]

/-! ### H0 -/

def St (oc : Option (Context UInt64)) (data : Bytes) : Prop := ∃ c, oc = some c ∧ RelN 64 c data

theorem St.upd {oc : Option (Context UInt64)} {data : Bytes} (h : St oc data) (d : Bytes) : St (Impl.Argon2.H0.upd oc d) (data ++ d) := by
  obtain ⟨c, rfl, hr⟩ := h
  obtain ⟨c', h1, h2⟩ := ctx_update 64 c data d hr
  exact ⟨c', h1, h2⟩

/-- `H0::new` hashes exactly the fields of RFC 9106 3.2 step 1, in order, each number as LE32 (lengths reduced mod
    2^32 by the `as u32` casts) -/
theorem H0_new_eq (params : Impl.Argon2.Params) (password salt key aad : Bytes) (tag_length : Nat) :
    Impl.Argon2.H0.new params password salt key aad tag_length =
      some (H 64 (LE32 params.parallelism ++ LE32 tag_length ++ LE32 params.memory_kb ++ LE32 params.iterations ++
        LE32 params.version ++ LE32 params.hash_type.toNat ++ LE32 (password.length % 2 ^ 32) ++ password ++
        LE32 (salt.length % 2 ^ 32) ++ salt ++ LE32 (key.length % 2 ^ 32) ++ key ++ LE32 (aad.length % 2 ^ 32) ++ aad)) := by
  have s0 : St (Context.new Impl.Blake2.b 512) [] := by
    obtain ⟨c0, e0, r0⟩ := ctx512_new; exact ⟨c0, e0, r0⟩
  have s := (((((((((((((s0.upd (natToLE 4 params.parallelism)).upd (natToLE 4 tag_length)).upd
    (natToLE 4 params.memory_kb)).upd (natToLE 4 params.iterations)).upd (natToLE 4 params.version)).upd
    (natToLE 4 params.hash_type.toNat)).upd (natToLE 4 (password.length % 2 ^ 32))).upd password).upd
    (natToLE 4 (salt.length % 2 ^ 32))).upd salt).upd (natToLE 4 (key.length % 2 ^ 32))).upd key).upd
    (natToLE 4 (aad.length % 2 ^ 32))).upd aad
  obtain ⟨c, hc, hr⟩ := s
  show (match Impl.Argon2.H0.upd _ aad with | none => none | some c => Context.finalize Impl.Blake2.b .wrapping 512 c) = _
  rw [hc]
  simp only []
  rw [ctx512_finalize c _ hr]
  simp [LE32, List.append_assoc]

end Cx.Proofs.Argon2
