/-
  Proofs.LeakModelEd25519 — (b) Ed25519 key generation and signing: erasure and traces of the instrumented
  `nibbles`, recoding, `GePrecomp::select`, the comb loops, `Ge::scalarmult_base`, `Ge::to_bytes`, `keypair`,
  `signature`, `signature_extended`.
-/
import CxVerif.Proofs.LeakModelX25519
import CxVerif.Proofs.Ed25519Sign
set_option linter.unusedSimpArgs false
set_option linter.unusedVariables false
set_option maxRecDepth 2000
namespace Cx.Proofs.LeakModel
open Cx Cx.Impl.CT Cx.Impl.LeakModel Cx.Impl.Fe64 Cx.Impl.Ge Cx.Impl.Ed25519
open Cx.Impl.Scalar64 (Scalar ckI8 shlI8)

/- the instrumented functions are opaque to the unifier here (`unfold` still works): `leak_const` / `leak_erase` then
   never look through a callee, and a failing `apply` fails at once -/
attribute [local irreducible] invertL chain250L square_repeatdlyL emitIdx nibblesL recodeLoopL recodeL selectL combLoopL
  scalarmult_baseL to_affineL affine_to_bytesL ge_to_bytesL sha512_1L sha512_2L clamp_scalarL extended_secretL
  extended_to_publicL keypairL signature_nonceL muladdL signature_tailL signatureL signature_extendedL

/-! ### nibbles, recoding -/

theorem emitIdx_val (l : List Nat) : (emitIdx l).val = some () := by
  induction l with
  | nil => unfold emitIdx; exact LO.pure_val _
  | cons i is ih => unfold emitIdx; rw [LO.emit_bind_val]; exact ih

theorem emitIdx_const (l : List Nat) : Const (emitIdx l) (l.map Event.index) := by
  induction l with
  | nil => unfold emitIdx; exact Const.pure _
  | cons i is ih => unfold emitIdx; exact Const.bind (Const.emit _) (fun _ _ => ih)

theorem nibblesL_val (s : Scalar) : (nibblesL s).val = some (Impl.Scalar64.nibbles s) := by
  unfold nibblesL
  rw [LO.emit_bind_val, LO.bind_val_some _ _ () (emitIdx_val _)]
  exact LO.pure_val _

/-- trace of `nibbles` -/
def nibblesT : Trace := Event.loopBound 4 :: nibbleIdx.map Event.index

theorem nibblesL_const (s : Scalar) : Const (nibblesL s) nibblesT := by
  unfold nibblesL
  refine Const.of_eq (Const.bind (Const.emit _) (fun _ _ => Const.bind (emitIdx_const _) (fun _ _ => Const.pure _))) ?_
  simp only [nibblesT, List.append_nil, List.nil_append, List.cons_append]

theorem recodeLoopL_val (es : List Int) (carry : Int) : (recodeLoopL es carry).val = recodeLoop es carry := by
  induction es generalizing carry with
  | nil => unfold recodeLoopL recodeLoop; exact LO.pure_val _
  | cons e es ih =>
    unfold recodeLoopL recodeLoop
    refine LO.erase_bind (LO.lift_val _) (fun e1 => ?_)
    refine LO.erase_bind (LO.lift_val _) (fun c1 => ?_)
    refine LO.erase_bind (LO.lift_val _) (fun e2 => ?_)
    refine LO.erase_bind (ih _) (fun r => ?_)
    obtain ⟨rest, cl⟩ := r
    exact LO.pure_val _

theorem recodeLoopL_const (es : List Int) (carry : Int) : Const (recodeLoopL es carry) [] := by
  induction es generalizing carry with
  | nil => unfold recodeLoopL; exact Const.pure _
  | cons e es ih =>
    unfold recodeLoopL
    exact Const.bind (Const.lift _) (fun _ _ => Const.bind (Const.lift _) (fun _ _ => Const.bind (Const.lift _)
      (fun _ _ => Const.bind (ih _) (fun _ _ => Const.pure _))))

theorem recodeL_val (es : List Int) : (recodeL es).val = recode es := by
  unfold recodeL recode
  rw [LO.emit_bind_val]
  refine LO.erase_bind (recodeLoopL_val _ _) (fun r => ?_)
  obtain ⟨lo, carry⟩ := r
  refine LO.erase_bind (LO.lift_val _) (fun top => ?_)
  refine LO.erase_bind (LO.lift_val _) (fun top => ?_)
  exact LO.pure_val _

theorem recodeL_const (es : List Int) : Const (recodeL es) [Event.loopBound 63] := by
  unfold recodeL
  leak_const [recodeLoopL_const]
  simp

/-! ### `GePrecomp::select`, the comb -/

theorem selectL_val (pos : Nat) (b : Int) : (selectL pos b).val = GePrecomp.select pos b := by
  unfold selectL GePrecomp.select
  rw [LO.emit_bind_val]
  by_cases h : b < -8 ∨ b > 8
  · rw [if_pos h, if_pos h]; exact LO.lift_val _
  · rw [if_neg h, if_neg h]
    leak_erase []

/-- trace of a `select` that does not panic: the (passed) debug assertion, the row index -/
def selectT (pos : Nat) : Trace := [Event.branch false, Event.index pos]

theorem selectL_const (pos : Nat) (b : Int) : Const (selectL pos b) (selectT pos) := by
  unfold selectL
  by_cases h : b < -8 ∨ b > 8
  · apply Const.of_none
    rw [LO.emit_bind_val, if_pos h]; exact LO.lift_val _
  · rw [if_neg h, decide_eq_false h]
    leak_const []
    simp [selectT]

theorem combLoopL_val (es : List Int) (off : Nat) (n j : Nat) (h : Ge) :
    (combLoopL es off n j h).val = combLoop es off n j h := by
  induction n generalizing j h with
  | zero => unfold combLoopL combLoop; exact LO.pure_val _
  | succ n ih =>
    unfold combLoopL combLoop
    rw [LO.emit_bind_val]
    refine LO.erase_bind (LO.lift_val _) (fun e => ?_)
    refine LO.erase_bind (selectL_val _ _) (fun t => ?_)
    refine LO.erase_bind (LO.lift_val _) (fun r => ?_)
    refine LO.erase_bind (LO.lift_val _) (fun h' => ?_)
    exact ih _ _

/-- trace of `n` comb iterations from position `j`: the digit index `2j + off`, then `select(j, ·)` -/
def combT (off : Nat) : Nat → Nat → Trace
  | 0, _ => []
  | n + 1, j => Event.index (j * 2 + off) :: (selectT j ++ combT off n (j + 1))

theorem combLoopL_const (es : List Int) (off : Nat) (n j : Nat) (h : Ge) :
    Const (combLoopL es off n j h) (combT off n j) := by
  induction n generalizing j h with
  | zero => unfold combLoopL; exact Const.pure _
  | succ n ih =>
    unfold combLoopL
    refine Const.of_eq (Const.bind (Const.emit _) (fun _ _ => Const.bind (Const.lift _) (fun _ _ =>
      Const.bind (selectL_const _ _) (fun _ _ => Const.bind (Const.lift _) (fun _ _ => Const.bind (Const.lift _)
        (fun _ _ => ih _ _)))))) ?_
    simp only [combT, List.append_nil, List.nil_append, List.cons_append]

theorem scalarmult_baseL_val (a : Scalar) : (scalarmult_baseL a).val = Ge.scalarmult_base a := by
  unfold scalarmult_baseL Ge.scalarmult_base
  rw [LO.bind_val_some _ _ _ (nibblesL_val a)]
  refine LO.erase_bind (recodeL_val _) (fun es => ?_)
  rw [LO.emit_bind_val]
  refine LO.erase_bind (combLoopL_val _ _ _ _ _) (fun h => ?_)
  refine LO.erase_bind (LO.lift_val _) (fun h => ?_)
  refine LO.erase_bind (LO.lift_val _) (fun h => ?_)
  refine LO.erase_bind (LO.lift_val _) (fun h => ?_)
  refine LO.erase_bind (LO.lift_val _) (fun h => ?_)
  rw [LO.emit_bind_val]
  exact combLoopL_val _ _ _ _ _

/-- **trace of the fixed-base scalar multiplication**: a closed constant (4 + 64 nibble indices, the three loop
    bounds, 2 × 32 × (digit index, assertion, row index)) -/
def scalarmultT : Trace :=
  nibblesT ++ [Event.loopBound 63, Event.loopBound 32] ++ combT 1 32 0 ++ [Event.loopBound 32] ++ combT 0 32 0

theorem scalarmult_baseL_const (a : Scalar) : Const (scalarmult_baseL a) scalarmultT := by
  unfold scalarmult_baseL
  leak_const [nibblesL_const, recodeL_const, combLoopL_const]
  simp only [scalarmultT, List.append_nil, List.nil_append, List.cons_append, List.append_assoc]

/-! ### `Ge::to_bytes` -/

theorem to_affineL_val (g : Ge) : (to_affineL g).val = g.to_affine := by
  unfold to_affineL Ge.to_affine
  leak_erase [invertL_val]

theorem to_affineL_const (g : Ge) : Const (to_affineL g) invertT := by
  unfold to_affineL
  leak_const [invertL_const]
  simp

theorem affine_to_bytesL_val (a : GeAffine) : (affine_to_bytesL a).val = a.to_bytes := by
  unfold affine_to_bytesL GeAffine.to_bytes
  leak_erase []

/-- the one value-dependent event: the branch on `x.is_negative()` -/
theorem affine_to_bytesL_const (a : GeAffine) :
    Const (affine_to_bytesL a) [Event.branch ((is_negative a.x).getD false)] := by
  unfold affine_to_bytesL
  refine Const.bind (t₁ := []) (Const.lift _) (fun bs _ => ?_)
  refine Const.bindV (t₁ := []) (t₂ := fun n => [Event.branch n]) (Const.lift _) (fun n _ => ?_) (fun n hn => ?_)
  · leak_const []
    simp
  · rw [LO.lift_val] at hn
    rw [hn]; rfl

theorem ge_to_bytesL_val (g : Ge) : (ge_to_bytesL g).val = g.to_bytes := by
  unfold ge_to_bytesL Ge.to_bytes
  exact LO.erase_bind (to_affineL_val g) (fun a => affine_to_bytesL_val a)

/-- trace of `Ge::to_bytes`: the inversion chain, then the branch on the sign of x -/
def toBytesT (sign : Bool) : Trace := invertT ++ [Event.branch sign]

theorem ge_to_bytesL_const (g : Ge) : Const (ge_to_bytesL g) (toBytesT (geSign g)) := by
  unfold ge_to_bytesL
  refine Const.bindV (to_affineL_const g) (fun a _ => affine_to_bytesL_const a) (fun a ha => ?_)
  rw [to_affineL_val] at ha
  unfold toBytesT geSign
  rw [ha]

/-! ### ed25519.rs -/

theorem sha512_1L_val (a : Bytes) : (sha512_1L a).val = sha512_1 a := by
  unfold sha512_1L
  rw [LO.emit_bind_val]; exact LO.lift_val _

theorem sha512_1L_const (a : Bytes) : Const (sha512_1L a) [Event.length a.length] := by
  unfold sha512_1L
  leak_const []
  simp

theorem sha512_2L_val (a b : Bytes) : (sha512_2L a b).val = sha512_2 a b := by
  unfold sha512_2L
  rw [LO.emit_bind_val, LO.emit_bind_val]; exact LO.lift_val _

theorem sha512_2L_const (a b : Bytes) : Const (sha512_2L a b) [Event.length a.length, Event.length b.length] := by
  unfold sha512_2L
  leak_const []
  simp

theorem clamp_scalarL_val (a : Bytes) : (clamp_scalarL a).val = clamp_scalar a := by
  unfold clamp_scalarL
  rw [LO.emit_bind_val]; exact LO.lift_val _

theorem clamp_scalarL_const (a : Bytes) : Const (clamp_scalarL a) [Event.length a.length] := by
  unfold clamp_scalarL
  leak_const []
  simp

theorem extended_secretL_val (sk : Bytes) : (extended_secretL sk).val = extended_secret sk := by
  unfold extended_secretL extended_secret
  by_cases h : sk.length = 32
  · rw [if_pos h, if_pos h]
    exact LO.erase_bind (sha512_1L_val sk) (fun h => clamp_scalarL_val h)
  · rw [if_neg h, if_neg h]; exact LO.lift_val _

theorem sha512_1_length (a out : Bytes) (ha : a.length = 32) (h : sha512_1 a = some out) : out.length = 64 := by
  rw [Cx.Proofs.Ed25519Sha.sha512_1_eq a (by rw [ha]; decide)] at h
  cases h
  exact Cx.Proofs.Ed25519Sign.sha512_length a

/-- trace of `extended_secret`: the hash of the 32-byte seed, the clamp of the 64-byte digest -/
def extendedSecretT : Trace := [Event.length 32, Event.length 64]

theorem extended_secretL_const (sk : Bytes) : Const (extended_secretL sk) extendedSecretT := by
  unfold extended_secretL
  by_cases h : sk.length = 32
  · rw [if_pos h]
    refine Const.bindV (sha512_1L_const sk) (fun out _ => clamp_scalarL_const out) (fun out ho => ?_)
    rw [sha512_1L_val] at ho
    rw [sha512_1_length sk out h ho, h]; rfl
  · rw [if_neg h]; exact Const.of_none _ (LO.lift_val _)

theorem extended_to_publicL_val (ext : Bytes) : (extended_to_publicL ext).val = extended_to_public ext := by
  unfold extended_to_publicL extended_to_public
  leak_erase [scalarmult_baseL_val, ge_to_bytesL_val]

/-- trace of `extended_to_public` (key generation after the hash): comb, inversion chain, sign branch -/
def publicT (sign : Bool) : Trace := scalarmultT ++ toBytesT sign

theorem extended_to_publicL_const (ext : Bytes) : Const (extended_to_publicL ext) (publicT (pkSign ext)) := by
  unfold extended_to_publicL
  refine Const.bindV (t₁ := []) (t₂ := fun s => scalarmultT ++ toBytesT (nonceSign s)) (Const.lift _) (fun s _ => ?_)
    (fun s hs => ?_)
  · refine Const.bindV (scalarmult_baseL_const s) (fun a _ => ge_to_bytesL_const a) (fun a ha => ?_)
    rw [scalarmult_baseL_val] at ha
    unfold nonceSign; rw [ha]
  · rw [LO.lift_val] at hs
    unfold publicT pkSign nonceSign; rw [hs]; rfl

theorem keypairL_val (seed : Bytes) : (keypairL seed).val = keypair seed := by
  unfold keypairL keypair
  leak_erase [extended_secretL_val, extended_to_publicL_val]

/-- **trace of `keypair`**: hash of the seed (32 bytes), clamp, fixed-base multiplication, encoding; the only
    non-constant event is the final `branch sign` with `sign` = sign of x of the PUBLIC key -/
def keypairT (sign : Bool) : Trace := extendedSecretT ++ publicT sign

theorem keypairL_const (seed : Bytes) : Const (keypairL seed) (keypairT (keypairSign seed)) := by
  unfold keypairL
  refine Const.bindV (extended_secretL_const seed)
    (fun ext _ => Const.bind (t₂ := []) (extended_to_publicL_const ext) (fun _ _ => Const.pure _)) (fun ext he => ?_)
  rw [extended_secretL_val] at he
  unfold keypairT keypairSign; rw [he, List.append_nil]

theorem signature_nonceL_val (az msg : Bytes) : (signature_nonceL az msg).val = signature_nonce az msg := by
  unfold signature_nonceL signature_nonce
  by_cases h : az.length = 64
  · rw [if_pos h, if_pos h]
    exact LO.erase_bind (sha512_2L_val _ _) (fun _ => LO.lift_val _)
  · rw [if_neg h, if_neg h]; exact LO.lift_val _

theorem signature_nonceL_const (az msg : Bytes) :
    Const (signature_nonceL az msg) [Event.length (az.length - 32), Event.length msg.length] := by
  unfold signature_nonceL
  by_cases h : az.length = 64
  · rw [if_pos h]
    leak_const [sha512_2L_const]
    simp
  · rw [if_neg h]; exact Const.of_none _ (LO.lift_val _)

theorem muladdL_val (a b c : Scalar) : (muladdL a b c).val = Impl.Scalar64.muladd a b c := by
  unfold muladdL Impl.Scalar64.muladd
  leak_erase []

theorem muladdL_const (a b c : Scalar) : Const (muladdL a b c) [] := by
  unfold muladdL
  leak_const []
  simp

theorem signature_tailL_val (msg pk az : Bytes) (nonce : Scalar) :
    (signature_tailL msg pk az nonce).val = signature_tail msg pk az nonce := by
  unfold signature_tailL signature_tail
  leak_erase [scalarmult_baseL_val, ge_to_bytesL_val, sha512_2L_val, muladdL_val]

/-! ### lengths of the encodings (whenever the function returns at all) -/

theorem bind_some_elim' {α β : Type} {x : Option α} {f : α → Option β} {b : β} (h : x >>= f = some b) :
    ∃ a, x = some a ∧ f a = some b := by
  cases x with
  | none => cases h
  | some a => exact ⟨a, rfl, h⟩

theorem to_packed_length' (f : Fe) (w : List Nat) (h : to_packed f = some w) : w.length = 4 := by
  unfold to_packed at h
  repeat (obtain ⟨_, _, h⟩ := bind_some_elim' h)
  cases h; rfl

theorem natToLE_len' (n v : Nat) : (natToLE n v).length = n := by
  induction n generalizing v with
  | zero => rfl
  | succ n ih => simp [natToLE, ih]

theorem fe_to_bytes_length (f : Fe) (b : Bytes) (h : Impl.Fe64.to_bytes f = some b) : b.length = 32 := by
  unfold Impl.Fe64.to_bytes at h
  obtain ⟨w, hw, h⟩ := bind_some_elim' h
  cases h
  have := to_packed_length' f w hw
  match w, this with
  | [a, b, c, d], _ => simp [List.flatMap, natToLE_len']

theorem ge_to_bytes_length (g : Ge) (b : Bytes) (h : Ge.to_bytes g = some b) : b.length = 32 := by
  unfold Ge.to_bytes at h
  obtain ⟨a, _, h⟩ := bind_some_elim' h
  unfold GeAffine.to_bytes at h
  obtain ⟨bs, hbs, h⟩ := bind_some_elim' h
  obtain ⟨n, _, h⟩ := bind_some_elim' h
  cases h
  simp only [setSign, List.length_modify]
  exact fe_to_bytes_length _ _ hbs

/-! ### the declassified bit is bit 255 of the output -/

theorem carry_final_bounds (t r : Fe) (h : carry_final t = some r) : r.l3 < 2 ^ 51 ∧ r.l4 < 2 ^ 51 := by
  unfold carry_final at h
  obtain ⟨t1, _, h⟩ := bind_some_elim' h
  obtain ⟨t2, _, h⟩ := bind_some_elim' h
  obtain ⟨t3, _, h⟩ := bind_some_elim' h
  obtain ⟨t4, _, h⟩ := bind_some_elim' h
  cases h
  have hm : MASK = 2 ^ 51 - 1 := by decide
  constructor
  · show t3 &&& MASK < 2 ^ 51
    rw [hm]; exact Nat.lt_of_le_of_lt Nat.and_le_right (by decide)
  · show t4 &&& MASK < 2 ^ 51
    rw [hm]; exact Nat.lt_of_le_of_lt Nat.and_le_right (by decide)

theorem to_packed_top (f : Fe) (w : List Nat) (h : to_packed f = some w) :
    ∃ a b c d, w = [a, b, c, d] ∧ d < 2 ^ 63 := by
  unfold to_packed at h
  obtain ⟨u1, _, h⟩ := bind_some_elim' h
  obtain ⟨u2, _, h⟩ := bind_some_elim' h
  obtain ⟨v0, _, h⟩ := bind_some_elim' h
  obtain ⟨u3, _, h⟩ := bind_some_elim' h
  obtain ⟨w0, _, h⟩ := bind_some_elim' h
  obtain ⟨w1, _, h⟩ := bind_some_elim' h
  obtain ⟨w2, _, h⟩ := bind_some_elim' h
  obtain ⟨w3, _, h⟩ := bind_some_elim' h
  obtain ⟨w4, _, h⟩ := bind_some_elim' h
  obtain ⟨t, ht, h⟩ := bind_some_elim' h
  cases h
  obtain ⟨b3, b4⟩ := carry_final_bounds _ _ ht
  refine ⟨_, _, _, _, rfl, ?_⟩
  apply Nat.or_lt_two_pow
  · rw [Nat.shiftRight_eq_div_pow]
    exact Nat.lt_of_le_of_lt (Nat.div_le_self _ _) (Nat.lt_trans b3 (by decide))
  · rw [Nat.shiftLeft_eq]
    have : t.l4 * 2 ^ 12 < 2 ^ 63 := by omega
    exact Nat.lt_of_le_of_lt (Nat.mod_le _ _) this
theorem fe_to_bytes_top (f : Fe) (b : Bytes) (h : Impl.Fe64.to_bytes f = some b) :
    ∃ (pre : Bytes) (w : Fin 128), b = pre ++ [UInt8.ofNat w.val] ∧ pre.length = 31 := by
  unfold Impl.Fe64.to_bytes at h
  obtain ⟨w, hw, h⟩ := bind_some_elim' h
  cases h
  obtain ⟨a, b, c, d, rfl, hd⟩ := to_packed_top f w hw
  refine ⟨natToLE 8 a ++ natToLE 8 b ++ natToLE 8 c ++ natToLE 7 d, ⟨d / 256 ^ 7 % 256, ?_⟩, ?_, ?_⟩
  · have : d / 256 ^ 7 < 128 := by
      rw [Nat.div_lt_iff_lt_mul (by decide)]; exact Nat.lt_of_lt_of_le hd (by decide)
    omega
  · simp only [List.flatMap_cons, List.flatMap_nil, List.append_nil, List.append_assoc]
    rw [show (8 : Nat) = 7 + 1 from rfl, Cx.Proofs.Fe64.natToLE_add 7 1 d]
    rfl
  · simp only [List.length_append, natToLE_len']

theorem top_bit_table : ∀ (w : Fin 128) (n : Bool),
    (((UInt8.ofNat w.val ^^^ ((if n then (1 : UInt8) else 0) <<< 7)) >>> 7) != 0) = n := by
  decide

theorem setSign_topBit (bs : Bytes) (n : Bool) (pre : Bytes) (w : Fin 128) (h : bs = pre ++ [UInt8.ofNat w.val])
    (hl : pre.length = 31) : topBit (setSign bs n) = n := by
  subst h
  unfold setSign
  rw [Cx.Proofs.GeBytes.modify_append_len' pre 31 hl]
  unfold topBit
  rw [List.getElem?_append_right (by omega), hl]
  exact top_bit_table w n

/-- **the declassified bit is bit 255 of the encoding**: whenever `Ge::to_bytes` returns `out`,
    `x.is_negative()` of the affine point is the top bit of `out` -/
theorem geSign_eq_topBit (g : Ge) (out : Bytes) (h : g.to_bytes = some out) : geSign g = topBit out := by
  unfold Ge.to_bytes at h
  obtain ⟨a, ha, h⟩ := bind_some_elim' h
  unfold GeAffine.to_bytes at h
  obtain ⟨bs, hbs, h⟩ := bind_some_elim' h
  obtain ⟨n, hn, h⟩ := bind_some_elim' h
  cases h
  obtain ⟨pre, w, e, hl⟩ := fe_to_bytes_top _ _ hbs
  rw [setSign_topBit bs n pre w e hl]
  unfold geSign
  rw [ha]
  show (is_negative a.x).getD false = n
  rw [hn]; rfl

theorem topBit_append (a b : Bytes) (h : a.length = 32) : topBit (a ++ b) = topBit a := by
  unfold topBit
  rw [List.getElem?_append_left (by omega)]

/-- for `keypair`: the branch condition is bit 255 of the PUBLIC KEY that is returned -/
theorem keypairSign_eq_topBit (seed kp pk : Bytes) (h : keypair seed = some (kp, pk)) :
    keypairSign seed = topBit pk := by
  unfold keypair at h
  obtain ⟨ext, he, h⟩ := bind_some_elim' h
  obtain ⟨pk', hp, h⟩ := bind_some_elim' h
  cases h
  unfold keypairSign pkSign
  rw [he]
  unfold extended_to_public at hp
  obtain ⟨s, hs, hp⟩ := bind_some_elim' hp
  obtain ⟨a, ha, hp⟩ := bind_some_elim' hp
  simp only []
  rw [hs]
  simp only []
  rw [ha]
  exact geSign_eq_topBit a _ hp

/-- for `signature`: the branch condition is bit 255 of R, the first half of the SIGNATURE that is returned -/
theorem signatureSign_eq_topBit (msg kp sig : Bytes) (h : signature msg kp = some sig) :
    signatureSign msg kp = topBit sig := by
  unfold signature at h
  obtain ⟨sk, hsk, h⟩ := bind_some_elim' h
  obtain ⟨pk, hpk, h⟩ := bind_some_elim' h
  obtain ⟨az, haz, h⟩ := bind_some_elim' h
  obtain ⟨nonce, hn, h⟩ := bind_some_elim' h
  unfold signature_tail at h
  obtain ⟨r, hr, h⟩ := bind_some_elim' h
  obtain ⟨rb, hrb, h⟩ := bind_some_elim' h
  obtain ⟨hram, _, h⟩ := bind_some_elim' h
  obtain ⟨hram', _, h⟩ := bind_some_elim' h
  obtain ⟨a, _, h⟩ := bind_some_elim' h
  obtain ⟨s, _, h⟩ := bind_some_elim' h
  cases h
  have hl := ge_to_bytes_length r rb hrb
  rw [List.take_append_of_le_length (by omega), List.take_of_length_le (by omega), topBit_append _ _ hl]
  unfold signatureSign
  rw [hsk]
  simp only []
  rw [haz]
  simp only []
  rw [hn]
  simp only []
  unfold nonceSign
  rw [hr]
  exact geSign_eq_topBit r rb hrb

/-- trace of the part of `signature` after the nonce: [r]B, its encoding, the hash of R ‖ A ‖ M (64 + |M| bytes) -/
def signTailT (msgLen pkLen : Nat) (sign : Bool) : Trace :=
  scalarmultT ++ toBytesT sign ++ [Event.length (32 + pkLen), Event.length msgLen]

theorem signature_tailL_const (msg pk az : Bytes) (nonce : Scalar) :
    Const (signature_tailL msg pk az nonce) (signTailT msg.length pk.length (nonceSign nonce)) := by
  unfold signature_tailL
  refine Const.bindV (t₂ := fun r => toBytesT (geSign r) ++ [Event.length (32 + pk.length), Event.length msg.length])
    (scalarmult_baseL_const nonce) (fun r _ => ?_) (fun r hr => ?_)
  · refine Const.bindV (t₂ := fun rb => [Event.length (rb.length + pk.length), Event.length msg.length])
      (ge_to_bytesL_const r) (fun rb _ => ?_) (fun rb hrb => ?_)
    · leak_const [sha512_2L_const, muladdL_const]
      simp
    · rw [ge_to_bytesL_val] at hrb
      rw [ge_to_bytes_length r rb hrb]
  · rw [scalarmult_baseL_val] at hr
    unfold signTailT nonceSign; rw [hr, List.append_assoc]

theorem signatureL_val (msg kp : Bytes) : (signatureL msg kp).val = signature msg kp := by
  unfold signatureL signature
  leak_erase [extended_secretL_val, signature_nonceL_val, signature_tailL_val]

theorem clamp_scalar_length (a b : Bytes) (h : clamp_scalar a = some b) : b.length = a.length := by
  unfold clamp_scalar at h
  split at h
  · cases h
  · cases h; simp

theorem extended_secret_length (sk az : Bytes) (h : extended_secret sk = some az) : az.length = 64 := by
  unfold extended_secret at h
  by_cases hl : sk.length = 32
  · rw [if_pos hl] at h
    obtain ⟨out, ho, h⟩ := bind_some_elim' h
    rw [clamp_scalar_length _ _ h]
    exact sha512_1_length sk out hl ho
  · rw [if_neg hl] at h; cases h

/-- **trace of `signature`** for a message of `msgLen` bytes: hash of the seed, clamp, hash of prefix ‖ M, [r]B with
    its encoding (the only non-constant event: the sign of x of R), hash of R ‖ A ‖ M; Barrett reductions and
    `muladd` contribute nothing -/
def signatureT (msgLen : Nat) (sign : Bool) : Trace :=
  extendedSecretT ++ [Event.length 32, Event.length msgLen] ++ signTailT msgLen 32 sign

theorem signatureL_const (msg kp : Bytes) :
    Const (signatureL msg kp) (signatureT msg.length (signatureSign msg kp)) := by
  unfold signatureL
  refine Const.bindV (t₁ := []) (t₂ := fun sk => signatureT msg.length (signatureSign msg kp)) (Const.lift _)
    (fun sk hsk => ?_) (fun _ _ => rfl)
  rw [LO.lift_val] at hsk
  refine Const.bindV (t₁ := []) (t₂ := fun pk => signatureT msg.length (signatureSign msg kp)) (Const.lift _)
    (fun pk hpk => ?_) (fun _ _ => rfl)
  rw [LO.lift_val] at hpk
  have hpkl : pk.length = 32 := by
    unfold keypair_public at hpk
    split at hpk
    · cases hpk; simp only [List.length_take, List.length_drop]; omega
    · cases hpk
  refine Const.bindV (t₂ := fun az => [Event.length 32, Event.length msg.length] ++
      signTailT msg.length 32 (match signature_nonce az msg with | some n => nonceSign n | none => false))
    (extended_secretL_const sk) (fun az haz => ?_) (fun az haz => ?_)
  · rw [extended_secretL_val] at haz
    have hazl := extended_secret_length sk az haz
    refine Const.bindV (signature_nonceL_const az msg) (fun n _ => signature_tailL_const msg pk az n) (fun n hn => ?_)
    rw [signature_nonceL_val] at hn
    rw [hn, hazl, hpkl]
  · rw [extended_secretL_val] at haz
    unfold signatureT signatureSign
    rw [hsk]
    simp only []
    rw [haz, List.append_assoc]
    rfl

theorem signature_extendedL_val (msg ext : Bytes) : (signature_extendedL msg ext).val = signature_extended msg ext := by
  unfold signature_extendedL signature_extended
  leak_erase [extended_to_publicL_val, signature_nonceL_val, signature_tailL_val]

theorem extended_to_public_length (ext pk : Bytes) (h : extended_to_public ext = some pk) : pk.length = 32 := by
  unfold extended_to_public at h
  obtain ⟨s, _, h⟩ := bind_some_elim' h
  obtain ⟨a, _, h⟩ := bind_some_elim' h
  exact ge_to_bytes_length a pk h

/-- the sign of x of R in `signature_extended` -/
def extendedSign (msg ext : Bytes) : Bool :=
  match signature_nonce ext msg with
  | some n => nonceSign n
  | none => false

/-- trace of `signature_extended` (two declassified bits: the signs of x of A and of R) -/
def signatureExtendedT (msgLen : Nat) (signA signR : Bool) : Trace :=
  publicT signA ++ [Event.length 32, Event.length msgLen] ++ signTailT msgLen 32 signR

theorem signature_extendedL_const (msg ext : Bytes) (hl : ext.length = 64) :
    Const (signature_extendedL msg ext) (signatureExtendedT msg.length (pkSign ext) (extendedSign msg ext)) := by
  unfold signature_extendedL
  refine Const.bindV (t₂ := fun pk => [Event.length 32, Event.length msg.length] ++
      signTailT msg.length 32 (extendedSign msg ext))
    (extended_to_publicL_const ext) (fun pk hpk => ?_) (fun pk _ => ?_)
  · rw [extended_to_publicL_val] at hpk
    have hpkl := extended_to_public_length ext pk hpk
    refine Const.bindV (signature_nonceL_const ext msg) (fun n _ => signature_tailL_const msg pk ext n) (fun n hn => ?_)
    rw [signature_nonceL_val] at hn
    unfold extendedSign
    rw [hn, hl, hpkl]
  · unfold signatureExtendedT; rw [List.append_assoc]

/-! ### the variable-time loops of `double_scalarmult_vartime` (used by `verify` on PUBLIC data): erasure only -/

attribute [local irreducible] topIndexL dsmStepL dsmLoopL dsmMainL

theorem topIndexL_val (aslide bslide : List Int) (n : Nat) :
    (topIndexL aslide bslide n).val = some (topIndex aslide bslide n) := by
  induction n with
  | zero => unfold topIndexL; exact LO.pure_val _
  | succ n ih =>
    unfold topIndexL topIndex
    rw [LO.emit_bind_val, LO.emit_bind_val]
    by_cases h : (aslide[n]? != some 0 || bslide[n]? != some 0) = true
    · rw [if_pos h, if_pos h]; exact LO.pure_val _
    · rw [if_neg h, if_neg h]; exact ih

theorem dsmStepL_val (ai : List GeCached) (aslide bslide : List Int) (r : GePartial) (i : Nat) :
    (dsmStepL ai aslide bslide r i).val = dsmStep ai aslide bslide r i := by
  unfold dsmStepL dsmStep
  refine LO.erase_bind (LO.lift_val _) (fun t => ?_)
  rw [LO.emit_bind_val]
  refine LO.erase_bind (LO.lift_val _) (fun ad => ?_)
  rw [LO.emit_bind_val]
  have rest : ∀ t : GeP1P1,
      (do
        let bd ← LO.lift bslide[i]?
        LO.emit (Event.branch (decide (bd > 0)))
        have __do_jp : GeP1P1 → LO GePartial := fun t => LO.lift t.to_partial
        if bd > 0 then do
            LO.emit (Event.index (bd.tdiv 2).toNat)
            let c ← LO.lift BI[(bd.tdiv 2).toNat]?
            let f ← LO.lift t.to_full
            let t ← LO.lift (f.add_precomp c)
            __do_jp t
          else do
            LO.emit (Event.branch (decide (bd < 0)))
            if bd < 0 then do
                let nd ← LO.lift (ckI8 (-bd))
                LO.emit (Event.index (nd.tdiv 2).toNat)
                let c ← LO.lift BI[(nd.tdiv 2).toNat]?
                let f ← LO.lift t.to_full
                let t ← LO.lift (f.sub_precomp c)
                __do_jp t
              else do
                let t ← pure t
                __do_jp t : LO GePartial).val =
      (do
        let bd ← bslide[i]?
        have __do_jp : GeP1P1 → Option GePartial := fun t => t.to_partial
        if bd > 0 then do
            let c ← BI[(bd.tdiv 2).toNat]?
            let t ← (← t.to_full).add_precomp c
            __do_jp t
          else
            if bd < 0 then do
                let nd ← ckI8 (-bd)
                let c ← BI[(nd.tdiv 2).toNat]?
                let t ← (← t.to_full).sub_precomp c
                __do_jp t
              else do
                let t ← pure t
                __do_jp t) := by
    intro t
    refine LO.erase_bind (LO.lift_val _) (fun bd => ?_)
    rw [LO.emit_bind_val]
    by_cases h1 : bd > 0
    · simp only [if_pos h1]
      leak_erase []
    · simp only [if_neg h1]
      rw [LO.emit_bind_val]
      by_cases h2 : bd < 0
      · simp only [if_pos h2]
        leak_erase []
      · simp only [if_neg h2]
        leak_erase []
  by_cases h1 : ad > 0
  · simp only [if_pos h1]
    rw [LO.emit_bind_val]
    refine LO.erase_bind (LO.lift_val _) (fun c => ?_)
    refine LO.erase_bind (LO.lift_val _) (fun f => ?_)
    refine LO.erase_bind (LO.lift_val _) (fun t => ?_)
    exact rest t
  · simp only [if_neg h1]
    rw [LO.emit_bind_val]
    by_cases h2 : ad < 0
    · simp only [if_pos h2]
      refine LO.erase_bind (LO.lift_val _) (fun nd => ?_)
      rw [LO.emit_bind_val]
      refine LO.erase_bind (LO.lift_val _) (fun c => ?_)
      refine LO.erase_bind (LO.lift_val _) (fun f => ?_)
      refine LO.erase_bind (LO.lift_val _) (fun t => ?_)
      exact rest t
    · simp only [if_neg h2]
      refine LO.erase_bind (LO.pure_val _) (fun t => ?_)
      exact rest t

theorem dsmLoopL_val (ai : List GeCached) (aslide bslide : List Int) (n : Nat) (r : GePartial) :
    (dsmLoopL ai aslide bslide n r).val = dsmLoop ai aslide bslide n r := by
  induction n generalizing r with
  | zero => unfold dsmLoopL dsmLoop; exact LO.pure_val _
  | succ n ih =>
    unfold dsmLoopL dsmLoop
    exact LO.erase_bind (dsmStepL_val _ _ _ _ _) (fun r' => ih r')

/-- `dsmMainL` computes the two loops of `double_scalarmult_vartime` as the model has them -/
theorem dsmMainL_val (ai : List GeCached) (aslide bslide : List Int) :
    (dsmMainL ai aslide bslide).val =
      (match topIndex aslide bslide 256 with
       | none => pure GePartial.ZERO
       | some i => dsmLoop ai aslide bslide (i + 1) GePartial.ZERO) := by
  unfold dsmMainL
  rw [LO.bind_val_some _ _ _ (topIndexL_val aslide bslide 256)]
  cases topIndex aslide bslide 256 with
  | none => exact LO.pure_val _
  | some i =>
    show (LO.emit _ >>= fun _ => dsmLoopL ai aslide bslide (i + 1) GePartial.ZERO).val = _
    rw [LO.emit_bind_val]
    exact dsmLoopL_val _ _ _ _ _

end Cx.Proofs.LeakModel
