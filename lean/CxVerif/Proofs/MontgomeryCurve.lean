/-
  Proofs.MontgomeryCurve — Curve25519 `v² = u³ + 486662·u² + u` over `Fp = ZMod (2^255 − 19)` as a Mathlib
  Weierstrass curve (a₁ = 0, a₂ = 486662, a₃ = 0, a₄ = 1, a₆ = 0); every affine solution is a nonsingular
  point (Δ = 16(A² − 4) ≠ 0), so `M.Point` (Mathlib's `AddCommGroup`) is the full group of the curve.
  The group law on x-coordinates (`xenc`), in the shapes the x-only arithmetic needs, derived from Mathlib's
  `addX`/`slope`: tangent / vertical (`dbl_x`), chord (`add_x`: x(P+Q)·x(Q−P)·(x_P − x_Q)² = (x_P·x_Q − 1)²),
  equal x-coordinates (`eq_or_eq_neg_of_xenc_eq`); the base point `P9` (u = 9, v of RFC 7748 §4.1).
  Needs primality of p (`Fact (Nat.Prime p)`, instance argument) for the field structure of `ZMod p`.
-/
import CxVerif.Proofs.EdField
import CxVerif.Spec.X25519
import Mathlib.AlgebraicGeometry.EllipticCurve.Affine.Point
import Mathlib.Tactic.LinearCombination
import Mathlib.Tactic.FieldSimp
namespace Cx.Proofs.Montgomery
open Cx.Spec
open Cx.Spec.Field25519 (p)
open Cx.Proofs.EdField
open WeierstrassCurve WeierstrassCurve.Affine

/-- the Montgomery coefficient `A = 486662` (RFC 7748 §4.1) -/
def A : Nat := 486662

/-- `a24 = (A − 2)/4`, as the Spec has it -/
theorem a24_eq : 4 * X25519.a24 + 2 = A := by decide

theorem A_sq_sub_four_nat : (A * A + (p - 4)) % p ≠ 0 := by decide

section prime
variable [hp : Fact (Nat.Prime p)]

/-- Curve25519 in Weierstrass form -/
def M : Affine Fp := { a₁ := 0, a₂ := (A : Fp), a₃ := 0, a₄ := 1, a₆ := 0 }

theorem natCast_ne_zero {n : Nat} (h : n % p ≠ 0) : (n : Fp) ≠ 0 := by
  intro h0
  rw [← cast_mod, cast_eq_zero (Nat.mod_lt _ p_pos)] at h0
  exact h h0

theorem A_sq_ne_four : (A : Fp) * A - 4 ≠ 0 := by
  have h := natCast_ne_zero A_sq_sub_four_nat
  have h4 : ((p - 4 : Nat) : Fp) = -4 := by
    have : ((p - 4 : Nat) : Fp) + ((4 : Nat) : Fp) = 0 := by
      rw [← Nat.cast_add, Nat.sub_add_cancel (by decide), ZMod.natCast_self]
    have := eq_neg_of_add_eq_zero_left this
    simpa using this
  rw [Nat.cast_add, Nat.cast_mul, h4] at h
  intro h0; apply h; linear_combination h0

theorem four_ne_zero : (4 : Fp) ≠ 0 := by
  have h := natCast_ne_zero (n := 4) (by decide)
  simpa using h

theorem equation_iff {x y : Fp} : M.Equation x y ↔ y ^ 2 = x ^ 3 + (A : Fp) * x ^ 2 + x := by
  rw [Affine.equation_iff]
  simp only [M]
  constructor <;> intro h <;> linear_combination h

instance : M.IsElliptic := by
  refine ⟨?_⟩
  rw [isUnit_iff_ne_zero]
  have : WeierstrassCurve.Δ M = 16 * ((A : Fp) * A - 4) := by
    simp only [WeierstrassCurve.Δ, WeierstrassCurve.b₂, WeierstrassCurve.b₄, WeierstrassCurve.b₆,
      WeierstrassCurve.b₈, M]
    ring
  rw [this]
  have h16 : (16 : Fp) ≠ 0 := by
    have h := natCast_ne_zero (n := 16) (by decide)
    simpa using h
  exact mul_ne_zero h16 A_sq_ne_four

/-- every affine solution is a nonsingular point -/
theorem nonsingular {x y : Fp} (h : M.Equation x y) : M.Nonsingular x y :=
  equation_iff_nonsingular.mp h

/-! ## points and their x-coordinate -/

/-- the group of the curve (Mathlib: nonsingular affine points plus the point at infinity) -/
abbrev Pt := (M).Point

/-- `u`-coordinate as X25519 encodes it: `0` for the point at infinity -/
def xenc : Pt → Fp
  | .zero => 0
  | .some x _ _ => x

@[simp] theorem xenc_zero : xenc (0 : Pt) = 0 := rfl
@[simp] theorem xenc_some {x y : Fp} (h : M.Nonsingular x y) : xenc (.some x y h) = x := rfl

theorem negY_eq (x y : Fp) : M.negY x y = -y := by simp [Affine.negY, M]

theorem xenc_neg (P : Pt) : xenc (-P) = xenc P := by
  cases P with
  | zero => rfl
  | some x y h => rfl

/-- `g(x) = x(x² + Ax + 1)`, the right-hand side of the curve equation -/
def g (x : Fp) : Fp := x * (x ^ 2 + (A : Fp) * x + 1)

theorem some_eq (x y : Fp) (h : M.Nonsingular x y) : y ^ 2 = g x := by
  have := equation_iff.mp h.1
  rw [this, g]; ring

/-- points with the same x-coordinate are equal or opposite -/
theorem eq_or_eq_neg_of_xenc_eq {P Q : Pt} (hP : P ≠ 0) (hQ : Q ≠ 0) (h : xenc P = xenc Q) :
    P = Q ∨ P = -Q := by
  cases P with
  | zero => exact absurd rfl hP
  | some x₁ y₁ h₁ =>
    cases Q with
    | zero => exact absurd rfl hQ
    | some x₂ y₂ h₂ => exact Point.X_eq_iff.mp h

/-- tangent / vertical case: doubling on x-coordinates -/
theorem dbl_x {P : Pt} (hP : P ≠ 0) :
    (g (xenc P) = 0 ∧ P + P = 0) ∨
    (g (xenc P) ≠ 0 ∧ P + P ≠ 0 ∧ xenc (P + P) * (4 * g (xenc P)) = (xenc P ^ 2 - 1) ^ 2) := by
  cases P with
  | zero => exact absurd rfl hP
  | some x y h =>
    have hy := some_eq x y h
    simp only [xenc_some]
    by_cases hy0 : y = 0
    · left
      refine ⟨by rw [← hy, hy0]; ring, ?_⟩
      apply Point.add_self_of_Y_eq
      rw [negY_eq, hy0, neg_zero]
    · right
      have h2 : (2 : Fp) ≠ 0 := two_ne_zero
      have hne : y ≠ M.negY x y := by
        rw [negY_eq]; intro h'
        have : 2 * y = 0 := by linear_combination h'
        rcases mul_eq_zero.mp this with h | h
        · exact h2 h
        · exact hy0 h
      refine ⟨by rw [← hy]; exact pow_ne_zero 2 hy0, ?_⟩
      rw [Point.add_self_of_Y_ne hne]
      refine ⟨Point.some_ne_zero _, ?_⟩
      simp only [xenc_some, Affine.addX, Affine.slope_of_Y_ne rfl hne, negY_eq]
      simp only [M]
      have h2y : y - -y ≠ 0 := by
        intro h'; apply hne; rw [negY_eq]; linear_combination h'
      have h4 : (4 : Fp) ≠ 0 := four_ne_zero
      have e : y - -y = 2 * y := by ring
      rw [← hy, e]
      field_simp
      rw [g] at hy
      linear_combination (-16 * ((A : Fp) + 2 * x)) * hy

/-- chord case: sum and difference of two points with distinct x-coordinates -/
theorem add_x {P Q : Pt} (hP : P ≠ 0) (hQ : Q ≠ 0) (hx : xenc P ≠ xenc Q) :
    P + Q ≠ 0 ∧ Q - P ≠ 0 ∧
    xenc (P + Q) * xenc (Q - P) * (xenc P - xenc Q) ^ 2 = (xenc P * xenc Q - 1) ^ 2 := by
  cases P with
  | zero => exact absurd rfl hP
  | some x₂ y₂ h₂ =>
    cases Q with
    | zero => exact absurd rfl hQ
    | some x₃ y₃ h₃ =>
      simp only [xenc_some] at hx ⊢
      have e₂ := some_eq x₂ y₂ h₂
      have e₃ := some_eq x₃ y₃ h₃
      rw [g] at e₂ e₃
      have hx' : x₃ ≠ x₂ := fun h => hx h.symm
      rw [sub_eq_add_neg, Point.neg_some, Point.add_of_X_ne hx, Point.add_of_X_ne hx']
      refine ⟨Point.some_ne_zero _, Point.some_ne_zero _, ?_⟩
      simp only [xenc_some, Affine.addX, Affine.slope_of_X_ne hx, Affine.slope_of_X_ne hx', negY_eq]
      simp only [M]
      have d1 : x₂ - x₃ ≠ 0 := sub_ne_zero.mpr hx
      have d2 : x₃ - x₂ ≠ 0 := sub_ne_zero.mpr hx'
      field_simp
      linear_combination
        ((y₂ ^ 2 - y₃ ^ 2) + (x₂ * (x₂ ^ 2 + (A : Fp) * x₂ + 1) - x₃ * (x₃ ^ 2 + (A : Fp) * x₃ + 1))
          - 2 * ((A : Fp) + x₂ + x₃) * (x₂ - x₃) ^ 2) * e₂ +
        (-((y₂ ^ 2 - y₃ ^ 2) + (x₂ * (x₂ ^ 2 + (A : Fp) * x₂ + 1) - x₃ * (x₃ ^ 2 + (A : Fp) * x₃ + 1)))
          - 2 * ((A : Fp) + x₂ + x₃) * (x₂ - x₃) ^ 2) * e₃

/-- at a 2-torsion point (`g x = 0`) the doubling numerator `(x² − 1)²` does not vanish -/
theorem sq_sub_one_ne_of_g_eq_zero {x : Fp} (h : g x = 0) : (x ^ 2 - 1) ^ 2 ≠ 0 := by
  intro h0
  have h1 : x ^ 2 - 1 = 0 := by
    rcases pow_eq_zero_iff (n := 2) (by decide) |>.mp h0 with h; exact h
  apply A_sq_ne_four
  rw [g] at h
  linear_combination ((A : Fp) - 2 * x) * h + (4 - ((A : Fp) - 2 * x) * (x + (A : Fp))) * h1

/-! ## the base point `u = 9` (RFC 7748 §4.1) -/

/-- the `v`-coordinate of the base point given in RFC 7748 §4.1 -/
def v9 : Nat := 14781619447589544791020593568409986887264606134616475288964881837755586237401

omit hp in
theorem base_on_curve_nat : (v9 * v9) % p = (9 * 9 * 9 + A * (9 * 9) + 9) % p := by decide +kernel

theorem base_on_curve : ((v9 : Nat) : Fp) ^ 2 = (9 : Fp) ^ 3 + (A : Fp) * 9 ^ 2 + 9 := by
  have h := congrArg (fun n : Nat => (n : Fp)) base_on_curve_nat
  simp only [cast_mod] at h
  push_cast at h
  linear_combination h

/-- the base point of X25519 -/
def P9 : Pt := .some 9 (v9 : Fp) (nonsingular (equation_iff.mpr base_on_curve))

theorem xenc_P9 : xenc P9 = 9 := rfl

end prime
end Cx.Proofs.Montgomery
