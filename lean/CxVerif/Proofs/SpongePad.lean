/-
  Proofs.SpongePad — padding of the sponge.
  * `pad_len_eq`: the i64 computation of `pad_len` never overflows and returns rate − offset (in bytes);
  * `padBytes_sha3/_keccak`: the bit-level FIPS 202 tail  suffix ‖ pad10*1  packed into bytes is
    0x06 0…0 0x80 / 0x86 (SHA-3) and 0x01 0…0 0x80 / 0x81 (Keccak);
  * `impl_pad_sha3/_keccak`: `set_domain_sep` + `set_pad` of the code build exactly these bytes.
-/
import CxVerif.Spec.Keccak
import CxVerif.Impl.Sha3
namespace Cx.Proofs.Sponge
open Cx Cx.Spec.Keccak Cx.Impl.Sha3

theorem usizechk_of_lt {v : Nat} (h : v < 18446744073709551616) : usizechk v = some v := by simp [usizechk, h]
theorem i64chk_of {v : Int} (h1 : -9223372036854775808 ≤ v) (h2 : v < 9223372036854775808) : i64chk v = some v := by
  unfold i64chk; rw [if_pos ⟨h1, h2⟩]
theorem usize_as_i64_small {x : Nat} (h : x < 9223372036854775808) : usize_as_i64 x = (x : Int) := by
  have : x % 18446744073709551616 = x := Nat.mod_eq_of_lt (by omega)
  simp [usize_as_i64, this, h]
theorem i64_as_usize_nonneg {x : Int} (h0 : 0 ≤ x) (h1 : x < 18446744073709551616) : i64_as_usize x = x.toNat := by
  unfold i64_as_usize; rw [Int.emod_eq_of_lt h0 h1]

theorem pad_len_eq (ds o R : Nat) (hds : ds ≤ 6) (ho : o < R) (hR : R ≤ 2^32) :
    pad_len ds (8*o) (8*R) = some (R - o) := by
  have hc : (8 * R) % 8 = 0 ∧ (8 * o) % 8 = 0 := by omega
  have e1 : usizechk (8 * o + ds) = some (8 * o + ds) := usizechk_of_lt (by omega)
  have er : usize_as_i64 (8 * R) = ((8 * R : Nat) : Int) := usize_as_i64_small (by omega)
  have em : usize_as_i64 (8 * o + ds) = ((8 * o + ds : Nat) : Int) := usize_as_i64_small (by omega)
  have t1 : i64chk (-((8 * o + ds : Nat) : Int)) = some (-((8 * o + ds : Nat) : Int)) := i64chk_of (by omega) (by omega)
  have t2 : i64chk (-((8 * o + ds : Nat) : Int) - 2) = some (-((8 * o + ds : Nat) : Int) - 2) := i64chk_of (by omega) (by omega)
  have t3 : i64chk (2 * ((8 * R : Nat) : Int)) = some (2 * ((8 * R : Nat) : Int)) := i64chk_of (by omega) (by omega)
  have t4 : i64chk (-((8 * o + ds : Nat) : Int) - 2 + 2 * ((8 * R : Nat) : Int))
      = some (-((8 * o + ds : Nat) : Int) - 2 + 2 * ((8 * R : Nat) : Int)) := i64chk_of (by omega) (by omega)
  have t5 : i64rem (-((8 * o + ds : Nat) : Int) - 2 + 2 * ((8 * R : Nat) : Int)) ((8 * R : Nat) : Int)
      = some (((8 * R - (8 * o + ds) - 2 : Nat) : Int)) := by
    have hne : ¬ (((8 * R : Nat) : Int) = 0 ∨
        (-((8 * o + ds : Nat) : Int) - 2 + 2 * ((8 * R : Nat) : Int) = -9223372036854775808 ∧ ((8 * R : Nat) : Int) = -1)) := by omega
    simp only [i64rem, if_neg hne]
    apply congrArg some
    rw [Int.tmod_eq_emod_of_nonneg (by omega)]
    have : -((8 * o + ds : Nat) : Int) - 2 + 2 * ((8 * R : Nat) : Int)
        = ((8 * R : Nat) : Int) + ((8 * R - (8 * o + ds) - 2 : Nat) : Int) := by omega
    rw [this, Int.add_emod_left, Int.emod_eq_of_lt (by omega) (by omega)]
  have z : i64_as_usize (((8 * R - (8 * o + ds) - 2 : Nat) : Int)) = 8 * R - (8 * o + ds) - 2 := by
    rw [i64_as_usize_nonneg (by omega) (by omega)]; omega
  have m' : i64_as_usize ((8 * o + ds : Nat) : Int) = 8 * o + ds := by
    rw [i64_as_usize_nonneg (by omega) (by omega)]; omega
  have a1 : usizechk (8 * o + ds + (8 * R - (8 * o + ds) - 2)) = some (8 * o + ds + (8 * R - (8 * o + ds) - 2)) :=
    usizechk_of_lt (by omega)
  have a2 : usizechk (8 * o + ds + (8 * R - (8 * o + ds) - 2) + 2) = some (8 * o + ds + (8 * R - (8 * o + ds) - 2) + 2) :=
    usizechk_of_lt (by omega)
  have a3 : ¬ ((8 * o + ds + (8 * R - (8 * o + ds) - 2) + 2) % 8 ≠ 0) := by omega
  have b1 : usizechk (ds + (8 * R - (8 * o + ds) - 2)) = some (ds + (8 * R - (8 * o + ds) - 2)) := usizechk_of_lt (by omega)
  have b2 : usizechk (ds + (8 * R - (8 * o + ds) - 2) + 2) = some (ds + (8 * R - (8 * o + ds) - 2) + 2) := usizechk_of_lt (by omega)
  simp only [pad_len, hc, and_self, not_true_eq_false, if_false, e1, er, em, Option.bind_eq_bind, Option.bind_some,
    t1, t2, t3, t4, t5, z, m', a1, a2, a3, b1, b2, Option.pure_def]
  apply congrArg some
  omega

/-- the padded tail in closed form: `sfx` carries the suffix bits and the first pad bit -/
def padLit (sfx : UInt8) (q : Nat) : Bytes :=
  if q = 1 then [sfx ||| 0x80] else sfx :: (zeros (q - 2) ++ [0x80])

theorem mod8 (len r c : Nat) (hr : 0 < r) (hc : c < 8) : (8 * len + c) % (8 * r) = 8 * (len % r) + c := by
  have h1 := Nat.div_add_mod len r
  have h2 := Nat.mod_lt len hr
  generalize len / r = k at h1
  generalize len % r = o at h1 h2
  subst h1
  have : 8 * (r * k + o) + c = (8 * r) * k + (8 * o + c) := by
    rw [Nat.mul_add, Nat.mul_assoc, Nat.add_assoc]
  rw [this, Nat.mul_add_mod, Nat.mod_eq_of_lt (by omega)]

theorem bitsToBytes_cons8 (b0 b1 b2 b3 b4 b5 b6 b7 : Bool) (rest : List Bool) :
    bitsToBytes (b0 :: b1 :: b2 :: b3 :: b4 :: b5 :: b6 :: b7 :: rest)
      = byteOfBits [b0, b1, b2, b3, b4, b5, b6, b7] :: bitsToBytes rest := by
  simp [bitsToBytes]

theorem bitsToBytes_zeros (n : Nat) (rest : List Bool) :
    bitsToBytes (List.replicate (8 * n) false ++ rest) = zeros n ++ bitsToBytes rest := by
  induction n with
  | zero => simp [zeros]
  | succ n ih =>
    have : 8 * (n + 1) = 8 * n + 1 + 1 + 1 + 1 + 1 + 1 + 1 + 1 := by omega
    rw [this]
    simp only [List.replicate_succ, List.cons_append, bitsToBytes_cons8, ih]
    simp [zeros, List.replicate_succ]
    decide

theorem padBits_len (r len : Nat) (hr : 0 < r) (s : Nat) (hs : s + 2 < 8) :
    (8 * r - (8 * len + s + 2) % (8 * r)) % (8 * r) = 8 * (r - len % r - 1) + (8 - (s + 2)) := by
  have h2 := Nat.mod_lt len hr
  rw [Nat.add_assoc, mod8 len r (s + 2) hr (by omega)]
  have : 8 * r - (8 * (len % r) + (s + 2)) < 8 * r := by omega
  rw [Nat.mod_eq_of_lt this]
  omega

theorem padBytes_sha3 (r len : Nat) (hr : 0 < r) :
    padBytes r len [false, true] = padLit 0x06 (r - len % r) := by
  have h2 := Nat.mod_lt len hr
  unfold padBytes pad10star1
  have := padBits_len r len hr 2 (by omega)
  simp only [List.length_cons, List.length_nil] at *
  rw [this]
  generalize hq : r - len % r = q
  have hq1 : 1 ≤ q := by omega
  unfold padLit
  by_cases h1 : q = 1
  · subst h1; simp; decide
  · obtain ⟨n, rfl⟩ : ∃ n, q = n + 2 := ⟨q - 2, by omega⟩
    rw [if_neg h1]
    have : 8 * (n + 2 - 1) + (8 - (0 + 1 + 1 + 2)) = 5 + (8 * n + 7) := by omega
    rw [this, ← List.replicate_append_replicate (n := 5), ← List.replicate_append_replicate (n := 8 * n)]
    simp only [List.replicate_succ, List.replicate_zero, List.cons_append, List.nil_append, List.append_assoc,
      bitsToBytes_cons8, bitsToBytes_zeros]
    simp [bitsToBytes]
    decide

theorem padBytes_keccak (r len : Nat) (hr : 0 < r) :
    padBytes r len [] = padLit 0x01 (r - len % r) := by
  have h2 := Nat.mod_lt len hr
  unfold padBytes pad10star1
  have := padBits_len r len hr 0 (by omega)
  simp only [List.length_nil, Nat.add_zero, Nat.zero_add] at *
  rw [this]
  generalize hq : r - len % r = q
  have hq1 : 1 ≤ q := by omega
  unfold padLit
  by_cases h1 : q = 1
  · subst h1; simp; decide
  · obtain ⟨n, rfl⟩ : ∃ n, q = n + 2 := ⟨q - 2, by omega⟩
    rw [if_neg h1]
    have : 8 * (n + 2 - 1) + (8 - 2) = 7 + (8 * n + 7) := by omega
    rw [this, ← List.replicate_append_replicate (n := 7), ← List.replicate_append_replicate (n := 8 * n)]
    simp only [List.replicate_succ, List.replicate_zero, List.cons_append, List.nil_append, List.append_assoc,
      bitsToBytes_cons8, bitsToBytes_zeros]
    simp [bitsToBytes]
    decide

theorem zeros_set_last (n : Nat) (v : UInt8) : (zeros (n + 1)).set n v = zeros n ++ [v] := by
  induction n with
  | zero => rfl
  | succ k ih => simp [zeros, List.replicate_succ] at *; exact ih

theorem zeros_get_last (n : Nat) : (zeros (n + 1))[n]? = some 0 := by
  simp [zeros]



theorem set_domain_sep_nz (n : Nat) (hn : n ≠ 0) (buf : Bytes) : set_domain_sep n buf = set_domain_sep 8 buf := by
  have h1 : (n != 0) = true := by simp [hn]
  unfold set_domain_sep
  rw [h1]; rfl

theorem idx_cons_zero {α : Type} (b : α) (t : List α) : idx (b :: t) 0 = some b := rfl
theorem upd_cons_zero {α : Type} (b v : α) (t : List α) : upd (b :: t) 0 v = some (v :: t) := by
  simp [upd]

theorem set_domain_sep_cons (t : Bytes) : set_domain_sep 8 (0 :: t) = some (2 :: t) := by
  simp [set_domain_sep, idx_cons_zero, upd_cons_zero]

theorem clear_bits_cons (b : UInt8) (t : Bytes) (lo : Nat) :
    clear_bits (b :: t) 0 lo = some ((((List.range 8).filter (fun i => lo ≤ i)).foldl
      (fun b i => b &&& ~~~ ((1 : UInt8) <<< UInt8.ofNat i)) b) :: t) := by
  unfold clear_bits
  generalize (List.range 8).filter (fun i => decide (lo ≤ i)) = l
  induction l generalizing b with
  | nil => rfl
  | cons i l ih =>
    simp only [List.foldlM_cons, idx_cons_zero, upd_cons_zero, Option.bind_eq_bind, Option.bind_some, List.foldl_cons]
    exact ih _

/-- `set_pad::<2>` on a buffer of at least two bytes whose first byte is `b` and the rest zero -/
theorem set_pad_long (ds : Nat) (hds : ds < 8) (b : UInt8) (n : Nat) :
    set_pad ds (b :: zeros (n + 1)) = some
      ((((List.range 8).filter (fun i => ds % 8 + 1 ≤ i)).foldl (fun b i => b &&& ~~~ ((1 : UInt8) <<< UInt8.ofNat i))
        (b ||| ((1 : UInt8) <<< UInt8.ofNat (ds % 8)))) :: (zeros n ++ [0x80])) := by
  have hs : ds / 8 = 0 := by omega
  unfold set_pad
  simp only [hs, idx_cons_zero, upd_cons_zero, clear_bits_cons, Option.bind_eq_bind, Option.bind_some]
  generalize List.foldl (fun b i => b &&& ~~~((1 : UInt8) <<< UInt8.ofNat i)) (b ||| 1 <<< UInt8.ofNat (ds % 8))
                (List.filter (fun i => decide (ds % 8 + 1 ≤ i)) (List.range 8)) = h
  have hz : (zeros (n + 1)).length = n + 1 := by simp [zeros]
  have e1 : ¬ ((h :: zeros (n + 1)).length < 0 + 1) := by simp
  have e2 : ¬ ((b :: zeros (n + 1)).length = 0) := by simp
  have e3 : List.take (0 + 1) (h :: zeros (n + 1)) ++ zeros ((h :: zeros (n + 1)).length - (0 + 1)) = h :: zeros (n + 1) := by
    simp [hz]
  have e4 : (b :: zeros (n + 1)).length - 1 = n + 1 := by simp [hz]
  rw [if_neg e1, if_neg e2, e3, e4]
  have e5 : idx (h :: zeros (n + 1)) (n + 1) = some 0 := by
    simp only [idx, List.getElem?_cons_succ]; exact zeros_get_last n
  have e6 : upd (h :: zeros (n + 1)) (n + 1) ((0 : UInt8) ||| 128) = some (h :: (zeros n ++ [0x80])) := by
    have : n + 1 < (h :: zeros (n + 1)).length := by simp [hz]
    unfold upd; rw [if_pos this, List.set_cons_succ, zeros_set_last]; rfl
  rw [e5]; exact e6

theorem zeros_succ (n : Nat) : zeros (n + 1) = 0 :: zeros n := by simp [zeros, List.replicate_succ]

/-- the padding block built by `finalize` for SHA-3 (`DSLEN = 2`, `DIGESTLEN ≠ 0`) -/
theorem impl_pad_sha3 (dl q : Nat) (hdl : dl ≠ 0) (hq : 1 ≤ q) :
    (set_domain_sep (dl * 8) (zeros q)).bind (set_pad 2) = some (padLit 0x06 q) := by
  rw [set_domain_sep_nz (dl * 8) (by omega)]
  by_cases h1 : q = 1
  · subst h1; decide
  · obtain ⟨n, rfl⟩ : ∃ n, q = n + 2 := ⟨q - 2, by omega⟩
    rw [zeros_succ, set_domain_sep_cons, Option.bind_some, set_pad_long 2 (by omega)]
    unfold padLit
    rw [if_neg h1]
    simp only [Nat.add_sub_cancel]
    congr 2

/-- the padding block built by `finalize` for Keccak (`DSLEN = 0`: no `set_domain_sep`) -/
theorem impl_pad_keccak (q : Nat) (hq : 1 ≤ q) : set_pad 0 (zeros q) = some (padLit 0x01 q) := by
  by_cases h1 : q = 1
  · subst h1; decide
  · obtain ⟨n, rfl⟩ : ∃ n, q = n + 2 := ⟨q - 2, by omega⟩
    rw [zeros_succ, set_pad_long 0 (by omega)]
    unfold padLit
    rw [if_neg h1]
    simp only [Nat.add_sub_cancel]
    congr 2

theorem padLit_length (sfx : UInt8) (q : Nat) (hq : 1 ≤ q) : (padLit sfx q).length = q := by
  unfold padLit
  by_cases h1 : q = 1
  · simp [h1]
  · rw [if_neg h1]; simp [zeros]; omega

end Cx.Proofs.Sponge
