/-
  Proofs.FixedBuffer — the generic Merkle–Damgård refinement: `cryptoutil::FixedBuffer<N>` (Impl/FixedBuffer.lean)
  + the finish sequence (Impl/MdEngine.lean) compute `Spec.MD.hash` (Spec/MerkleDamgard.lean) for EVERY message,
  EVERY chunking (empty chunks included), every block size `N > 0` and every length field that fits.
  Core Lean only (no Mathlib).  Axioms: propext, Classical.choice, Quot.sound (see `#print axioms`).

  Main statements (namespace `Cx.Proofs.FB`):
    input_spec            one `input` call: no panic; the callback has been applied to exactly the full blocks of
                          `data ++ inp` (fold of the one-block `compress`), the buffer keeps `blockTail`, stays WF
    inputMany_spec        the same for any list of chunks (induction over the list) — C01 (i), C02 split independence
    md_finish_with_spec   `standard_padding(rem)`, length writer, `full_buffer`, last compression: both branches give
                          `data ‖ 0x80 ‖ 0^padZeros ‖ lenBytes` in blocks; buffer ends with `buffer_idx = 0` — C01 (ii)
    md_hash_split         fold over the padded tail after the message's full blocks = `Spec.MD.hash` (step lemma)
    md_hash_spec          new/reset buffer --any chunking--> finish  =  `Spec.MD.hash N rem lenEnc compress iv msg`
    padZeros_spec         `padZeros` is the smallest non-negative solution of FIPS 180-4 §5.1
    len_be64_eq, len_be128_eq, len_le64_split_eq   the code's `(pb << 3)` / `(pb >> 29)` length fields are the
                          standard's BE-64 / BE-128 / LE-64 encodings of `8·len` (len < 2^61 / 2^125 / 2^61)

  HOW TO INSTANTIATE (SHA-1, RIPEMD-160, SHA-2 all do the same):
    1. `compress : σ → Bytes → σ` := your TOTAL one-block function (σ = chaining state, e.g. `[u32; 5]`).
    2. For the closure given to `FixedBuffer::input` (`digest_blocks`, loops over 64-byte chunks) prove
         hf  : FuncIsBlocks N func compress      -- on d with d.length % N = 0: `some (foldl compress s (fullBlocks N d))`
       (induction over `d.length / N` with `fullBlocks_cons`, `fullBlocks_of_lt`; see Proofs/Sha2Engine.lean
       `digest_block_loop_spec` for a worked example.)  For the closure given to `standard_padding` and for the final
       call on `full_buffer()` prove
         hf1 : FuncOneBlock N funcFin compress   -- on d with d.length = N: `some (compress s d)`
       (`hf.one hN` if it is the same closure).
    3. Show your `update` is `FixedBuffer.input N …` plus the counter update and your `finish` is
         `md_finish_with N rem wr buf funcFin st`     (unfold both sides; `wr` = how the length bytes are written):
         * one `*next::<8>() = …`   : `wr = fun b => b.next_write 8 lenBytes`, use `next_write_WritesLen`
                                      (that instance is `md_finish`, theorem `md_finish_spec`)
         * two `next::<4>()` (RIPEMD): `wr = next_write_twice 4 lo hi`, use `next_write_twice_WritesLen`
                                      and `len_le64_split_eq` to identify `lo ++ hi` with `Spec.MD.le64 (8·len)`.
    4. Apply `md_hash_spec` with `b0 = FixedBuffer.new N` (`new_WF`, idx 0) or any reset buffer
       (`WF` + `buffer_idx = 0`; the stale array contents are irrelevant — that is part of the theorem),
       `lenEnc = Spec.MD.be64 | be128 | le64`; rewrite your counter `processed_bytes = len % 2^64` with `len_be64_eq` …
       under the standard's domain guard.
    For state machines (C02) use `input_spec` / `md_finish_with_spec` as the step lemmas of your abstraction
    relation (see Proofs/Sha2Engine.lean `Abs256`).
-/
import CxVerif.Util.Blocks
import CxVerif.Impl.FixedBuffer
import CxVerif.Impl.MdEngine
import CxVerif.Spec.MerkleDamgard
namespace Cx.Proofs.FB
open Cx Cx.Impl

/-! ### cutting into blocks -/

theorem fullBlocks_of_lt {N : Nat} {d : Bytes} (h : d.length < N) : fullBlocks N d = [] := by
  unfold fullBlocks
  rw [Nat.div_eq_of_lt h]; rfl

theorem blockTail_of_lt {N : Nat} {d : Bytes} (h : d.length < N) : blockTail N d = d := by
  unfold blockTail
  rw [Nat.div_eq_of_lt h]; simp

theorem fullBlocks_cons {N : Nat} (hN : 0 < N) {a r : Bytes} (ha : a.length = N) :
    fullBlocks N (a ++ r) = a :: fullBlocks N r := by
  unfold fullBlocks
  have : (a ++ r).length / N = r.length / N + 1 := by
    rw [List.length_append, ha, Nat.add_comm, Nat.add_div_right _ hN]
  rw [this, takeBlocks]
  congr 1
  · rw [← ha]; simp
  · rw [← ha]; simp

theorem blockTail_cons {N : Nat} (hN : 0 < N) {a r : Bytes} (ha : a.length = N) :
    blockTail N (a ++ r) = blockTail N r := by
  unfold blockTail
  have : (a ++ r).length / N = r.length / N + 1 := by
    rw [List.length_append, ha, Nat.add_comm, Nat.add_div_right _ hN]
  rw [this, Nat.add_mul, Nat.one_mul, Nat.add_comm, ← List.drop_drop]
  congr 1
  rw [← ha]; simp

/-- uniqueness of the decomposition into full blocks and a short tail -/
theorem split_unique {N : Nat} (hN : 0 < N) (blocks : List Bytes) (t : Bytes)
    (hb : ∀ b ∈ blocks, b.length = N) (ht : t.length < N) :
    fullBlocks N (blocks.flatten ++ t) = blocks ∧ blockTail N (blocks.flatten ++ t) = t := by
  induction blocks with
  | nil => simp [fullBlocks_of_lt ht, blockTail_of_lt ht]
  | cons b bs ih =>
    have hbl : b.length = N := hb b (by simp)
    have ih' := ih (fun x hx => hb x (by simp [hx]))
    simp only [List.flatten_cons, List.append_assoc]
    rw [fullBlocks_cons hN hbl, blockTail_cons hN hbl, ih'.1, ih'.2]
    simp

theorem takeBlocks_length (N k : Nat) (d : Bytes) : (takeBlocks N k d).length = k := by
  induction k generalizing d with
  | zero => rfl
  | succ k ih => simp [takeBlocks, ih]

theorem takeBlocks_all_len {N : Nat} (k : Nat) (d : Bytes) (h : k * N ≤ d.length) :
    ∀ b ∈ takeBlocks N k d, b.length = N := by
  induction k generalizing d with
  | zero => simp [takeBlocks]
  | succ k ih =>
    intro b hb
    simp only [takeBlocks, List.mem_cons] at hb
    have h2 : N ≤ d.length := by rw [Nat.add_mul] at h; omega
    rcases hb with rfl | hb
    · simp [h2]
    · exact ih (d.drop N) (by simp; rw [Nat.add_mul] at h; omega) b hb

theorem takeBlocks_flatten {N : Nat} (k : Nat) (d : Bytes) :
    (takeBlocks N k d).flatten = d.take (k * N) := by
  induction k generalizing d with
  | zero => simp [takeBlocks]
  | succ k ih =>
    simp only [takeBlocks, List.flatten_cons, ih]
    rw [Nat.add_mul, Nat.one_mul, Nat.add_comm, List.take_add]

theorem fullBlocks_all_len {N : Nat} (d : Bytes) : ∀ b ∈ fullBlocks N d, b.length = N :=
  takeBlocks_all_len _ d (Nat.div_mul_le_self _ _)

/-- existence: every byte string is its full blocks followed by its tail -/
theorem split_exists (N : Nat) (d : Bytes) : d = (fullBlocks N d).flatten ++ blockTail N d := by
  unfold fullBlocks blockTail
  rw [takeBlocks_flatten, List.take_append_drop]

theorem blockTail_length_lt {N : Nat} (hN : 0 < N) (d : Bytes) : (blockTail N d).length < N := by
  unfold blockTail
  simp only [List.length_drop]
  have := Nat.mod_lt d.length hN
  have := Nat.div_add_mod d.length N
  rw [Nat.mul_comm] at this
  omega

theorem blockTail_length {N : Nat} (d : Bytes) : (blockTail N d).length = d.length % N := by
  unfold blockTail
  simp only [List.length_drop]
  have := Nat.div_add_mod d.length N
  rw [Nat.mul_comm] at this
  omega

/-- appending to a byte string only depends on its tail -/
theorem fullBlocks_append {N : Nat} (hN : 0 < N) (m x : Bytes) :
    fullBlocks N (m ++ x) = fullBlocks N m ++ fullBlocks N (blockTail N m ++ x) := by
  have hm := split_exists N m
  have h1 := split_exists N (blockTail N m ++ x)
  have : m ++ x = (fullBlocks N m ++ fullBlocks N (blockTail N m ++ x)).flatten
      ++ blockTail N (blockTail N m ++ x) := by
    rw [List.flatten_append, List.append_assoc, ← h1, ← List.append_assoc, ← hm]
  rw [this]
  exact (split_unique hN _ _ (by
    intro b hb
    rcases List.mem_append.mp hb with h | h
    · exact fullBlocks_all_len _ b h
    · exact fullBlocks_all_len _ b h) (blockTail_length_lt hN _)).1

theorem blockTail_append {N : Nat} (hN : 0 < N) (m x : Bytes) :
    blockTail N (m ++ x) = blockTail N (blockTail N m ++ x) := by
  have hm := split_exists N m
  have h1 := split_exists N (blockTail N m ++ x)
  have : m ++ x = (fullBlocks N m ++ fullBlocks N (blockTail N m ++ x)).flatten
      ++ blockTail N (blockTail N m ++ x) := by
    rw [List.flatten_append, List.append_assoc, ← h1, ← List.append_assoc, ← hm]
  rw [this]
  exact (split_unique hN _ _ (by
    intro b hb
    rcases List.mem_append.mp hb with h | h
    · exact fullBlocks_all_len _ b h
    · exact fullBlocks_all_len _ b h) (blockTail_length_lt hN _)).2

/-- the blocks of a prefix that ends on a block boundary -/
theorem fullBlocks_take {N : Nat} (hN : 0 < N) (r : Bytes) :
    fullBlocks N (r.take (r.length / N * N)) = fullBlocks N r := by
  have h := split_exists N r
  have h2 : r.take (r.length / N * N) = (fullBlocks N r).flatten := by
    unfold fullBlocks; rw [takeBlocks_flatten]
  rw [h2]
  have := (split_unique hN (fullBlocks N r) [] (fullBlocks_all_len r) (by simpa using hN)).1
  simpa using this



/-! ### the FixedBuffer operations -/

/-- the invariant between calls: the array has its size and is not full -/
def WF (N : Nat) (b : FixedBuffer) : Prop := b.buffer.length = N ∧ b.buffer_idx < N

/-- what a callback handed to `input` / `standard_padding` must do: on a whole number of blocks it does not panic
    and folds the one-block compression function over them -/
def FuncIsBlocks {σ : Type} (N : Nat) (func : σ → Bytes → Option σ) (compress : σ → Bytes → σ) : Prop :=
  ∀ s d, d.length % N = 0 → func s d = some ((fullBlocks N d).foldl compress s)

theorem slice_eq {b : Bytes} {lo hi : Nat} (h1 : lo ≤ hi) (h2 : hi ≤ b.length) :
    slice b lo hi = some ((b.drop lo).take (hi - lo)) := by
  simp [slice, h1, h2]

theorem copy_from_slice_eq {dst src : Bytes} {lo hi : Nat} (h1 : lo ≤ hi) (h2 : hi ≤ dst.length)
    (h3 : src.length = hi - lo) :
    copy_from_slice dst lo hi src = some (dst.take lo ++ src ++ dst.drop hi) := by
  simp [copy_from_slice, h1, h2, h3]

theorem FuncIsBlocks.single {σ : Type} {N : Nat} {func : σ → Bytes → Option σ} {compress : σ → Bytes → σ}
    (hf : FuncIsBlocks N func compress) (hN : 0 < N) (s : σ) {d : Bytes} (hd : d.length = N) :
    func s d = some (compress s d) := by
  rw [hf s d (by rw [hd]; exact Nat.mod_self N)]
  have := fullBlocks_cons hN (r := []) hd
  simp only [List.append_nil] at this
  rw [this, fullBlocks_of_lt (by simpa using hN)]
  rfl

/-- what the callback of `standard_padding` / the final compression must do: one block, no panic -/
def FuncOneBlock {σ : Type} (N : Nat) (func : σ → Bytes → Option σ) (compress : σ → Bytes → σ) : Prop :=
  ∀ s d, d.length = N → func s d = some (compress s d)

theorem FuncIsBlocks.one {σ : Type} {N : Nat} {func : σ → Bytes → Option σ} {compress : σ → Bytes → σ}
    (hf : FuncIsBlocks N func compress) (hN : 0 < N) : FuncOneBlock N func compress :=
  fun s _ hd => hf.single hN s hd

theorem input_rest_spec {σ : Type} {N : Nat} (hN : 0 < N) (b : FixedBuffer) (inp : Bytes) (i : Nat)
    (func : σ → Bytes → Option σ) (compress : σ → Bytes → σ) (st : σ)
    (hlen : b.buffer.length = N) (hidx : b.buffer_idx = 0) (hi : i ≤ inp.length)
    (hf : FuncIsBlocks N func compress) :
    ∃ b', FixedBuffer.input_rest N b inp i func st
        = some (b', (fullBlocks N (inp.drop i)).foldl compress st)
      ∧ WF N b' ∧ b'.data = blockTail N (inp.drop i) := by
  have hrl : (inp.drop i).length = inp.length - i := by simp
  have hbb : (inp.length - i) / N * N ≤ inp.length - i := Nat.div_mul_le_self _ _
  have htl : (blockTail N (inp.drop i)).length < N := blockTail_length_lt hN _
  -- both branches compute the same thing
  have key : ∀ (st' : σ) (i' : Nat), i' = i + (inp.length - i) / N * N →
      st' = (fullBlocks N (inp.drop i)).foldl compress st →
      ∃ b', (match (some (st', i') : Option (σ × Nat)) with
        | none => none
        | some (st, i) =>
          if inp.length < i then none else
          match slice inp i inp.length with
          | none => none
          | some rest =>
            match copy_from_slice b.buffer 0 (inp.length - i) rest with
            | none => none
            | some buffer => some (⟨buffer, b.buffer_idx + (inp.length - i)⟩, st))
        = some (b', (fullBlocks N (inp.drop i)).foldl compress st)
      ∧ WF N b' ∧ b'.data = blockTail N (inp.drop i) := by
    intro st' i' hi' hst'
    have hi'le : i' ≤ inp.length := by omega
    have hrest : inp.drop i' = blockTail N (inp.drop i) := by
      unfold blockTail; rw [List.drop_drop, hrl, hi']
    have hrem : inp.length - i' < N := by
      have := htl; rw [← hrest] at this; simpa using this
    simp only [Nat.not_lt.mpr hi'le, if_false]
    rw [slice_eq hi'le (Nat.le_refl _)]
    simp only []
    have htk : (inp.drop i').take (inp.length - i') = inp.drop i' := by
      apply List.take_of_length_le; simp
    rw [htk, copy_from_slice_eq (Nat.zero_le _) (by omega) (by simp)]
    refine ⟨_, by rw [hst'], ⟨?_, ?_⟩, ?_⟩
    · simp; omega
    · simp [hidx]; omega
    · simp [FixedBuffer.data, hidx, ← hrest]
  unfold FixedBuffer.input_rest
  simp only [Nat.not_lt.mpr hi, if_false]
  by_cases hge : inp.length - i ≥ N
  · simp only [hge, if_true]
    rw [slice_eq (Nat.le_add_right _ _) (by omega)]
    simp only [Nat.add_sub_cancel_left]
    have hfl : ((inp.drop i).take ((inp.length - i) / N * N)).length % N = 0 := by
      rw [List.length_take, hrl, Nat.min_eq_left hbb]; exact Nat.mul_mod_left _ _
    rw [hf st _ hfl]
    have := fullBlocks_take hN (inp.drop i)
    rw [hrl] at this
    rw [this]
    exact key _ _ rfl rfl
  · simp only [hge, if_false]
    have hlt : (inp.drop i).length < N := by rw [hrl]; omega
    have h0 : (inp.length - i) / N = 0 := Nat.div_eq_of_lt (by omega)
    exact key st i (by simp [h0]) (by rw [fullBlocks_of_lt hlt]; rfl)



theorem data_length {N : Nat} {b : FixedBuffer} (h : WF N b) : b.data.length = b.buffer_idx := by
  unfold FixedBuffer.data; rw [List.length_take]; have := h.1; have := h.2; omega

/-- **`FixedBuffer::input`, one call** (C01 (i) / C02): it never panics, hands exactly the full blocks of
    `data ++ input` to the compression function (in order) and keeps the tail. -/
theorem input_spec {σ : Type} {N : Nat} (hN : 0 < N) (b : FixedBuffer) (inp : Bytes)
    (func : σ → Bytes → Option σ) (compress : σ → Bytes → σ) (st : σ)
    (hwf : WF N b) (hf : FuncIsBlocks N func compress) :
    ∃ b', b.input N inp func st = some (b', (fullBlocks N (b.data ++ inp)).foldl compress st)
      ∧ WF N b' ∧ b'.data = blockTail N (b.data ++ inp) := by
  obtain ⟨hlen, hidx⟩ := hwf
  unfold FixedBuffer.input
  by_cases h0 : b.buffer_idx = 0
  · have hd : b.data = [] := by simp [FixedBuffer.data, h0]
    simp only [h0, bne_self_eq_false, Bool.false_eq_true, if_false, hd, List.nil_append]
    have := input_rest_spec hN b inp 0 func compress st hlen h0 (Nat.zero_le _) hf
    simpa using this
  · have hne : (b.buffer_idx != 0) = true := by simp [h0]
    simp only [hne, if_true, Nat.not_lt.mpr (Nat.le_of_lt hidx), if_false]
    have hdl : b.data.length = b.buffer_idx := data_length ⟨hlen, hidx⟩
    by_cases hge : inp.length ≥ N - b.buffer_idx
    · simp only [hge, if_true]
      rw [slice_eq (Nat.zero_le _) hge]
      simp only [List.drop_zero, Nat.sub_zero]
      rw [copy_from_slice_eq (Nat.le_of_lt hidx) (by omega) (by simp; omega)]
      simp only []
      have hdrop : b.buffer.drop N = [] := by apply List.drop_of_length_le; omega
      have hbuf : b.buffer.take b.buffer_idx ++ inp.take (N - b.buffer_idx) ++ b.buffer.drop N
          = b.data ++ inp.take (N - b.buffer_idx) := by simp [hdrop, FixedBuffer.data]
      have hbl : (b.data ++ inp.take (N - b.buffer_idx)).length = N := by
        simp [hdl]; omega
      rw [hbuf, hf.single hN st hbl]
      simp only []
      obtain ⟨b', he, hw, hdat⟩ := input_rest_spec hN ⟨b.data ++ inp.take (N - b.buffer_idx), 0⟩ inp
        (N - b.buffer_idx) func compress (compress st (b.data ++ inp.take (N - b.buffer_idx)))
        hbl rfl hge hf
      have hsplit : b.data ++ inp = (b.data ++ inp.take (N - b.buffer_idx)) ++ inp.drop (N - b.buffer_idx) := by
        rw [List.append_assoc, List.take_append_drop]
      refine ⟨b', ?_, hw, ?_⟩
      · rw [he, hsplit, fullBlocks_cons hN hbl]; rfl
      · rw [hdat, hsplit, blockTail_cons hN hbl]
    · simp only [hge, if_false]
      have hlt : inp.length < N - b.buffer_idx := by omega
      rw [copy_from_slice_eq (Nat.le_add_right _ _) (by omega) (by simp)]
      simp only []
      have hsl : (b.data ++ inp).length < N := by simp [hdl]; omega
      have hfb : (fullBlocks N (b.data ++ inp)).foldl compress st = st := by
        rw [fullBlocks_of_lt hsl]; rfl
      rw [hfb]
      refine ⟨_, rfl, ⟨?_, ?_⟩, ?_⟩
      · simp; omega
      · simp; omega
      · rw [blockTail_of_lt hsl]
        simp only [FixedBuffer.data]
        have h1 : (List.take b.buffer_idx b.buffer).length = b.buffer_idx := by simp; omega
        rw [List.take_append_of_le_length (by simp [h1])]
        apply List.take_of_length_le
        simp [h1]



/-- feeding a list of chunks one `input` call each -/
def inputMany {σ : Type} (N : Nat) (func : σ → Bytes → Option σ) :
    List Bytes → FixedBuffer → σ → Option (FixedBuffer × σ)
  | [], b, st => some (b, st)
  | c :: cs, b, st =>
    match b.input N c func st with
    | none => none
    | some (b', st') => inputMany N func cs b' st'

/-- **`FixedBuffer::input`, any sequence of calls** (every chunking, empty chunks included): the compression
    function has seen exactly the full blocks of the concatenation, the buffer holds its tail. -/
theorem inputMany_spec {σ : Type} {N : Nat} (hN : 0 < N) (func : σ → Bytes → Option σ)
    (compress : σ → Bytes → σ) (hf : FuncIsBlocks N func compress) (chunks : List Bytes) :
    ∀ (b : FixedBuffer) (st : σ), WF N b →
    ∃ b', inputMany N func chunks b st
        = some (b', (fullBlocks N (b.data ++ chunks.flatten)).foldl compress st)
      ∧ WF N b' ∧ b'.data = blockTail N (b.data ++ chunks.flatten) := by
  induction chunks with
  | nil =>
    intro b st hwf
    have hl : b.data.length < N := by rw [data_length hwf]; exact hwf.2
    refine ⟨b, ?_, hwf, ?_⟩
    · simp [inputMany, fullBlocks_of_lt hl]
    · simp [blockTail_of_lt hl]
  | cons c cs ih =>
    intro b st hwf
    obtain ⟨b1, h1, hw1, hd1⟩ := input_spec hN b c func compress st hwf hf
    obtain ⟨b2, h2, hw2, hd2⟩ := ih b1 ((fullBlocks N (b.data ++ c)).foldl compress st) hw1
    refine ⟨b2, ?_, hw2, ?_⟩
    · simp only [inputMany, h1, h2, List.flatten_cons]
      rw [hd1, ← List.append_assoc, fullBlocks_append hN (b.data ++ c), List.foldl_append]
    · rw [hd2, hd1, List.flatten_cons, ← List.append_assoc, ← blockTail_append hN]

theorem new_WF {N : Nat} (hN : 0 < N) : WF N (FixedBuffer.new N) := by
  simp [WF, FixedBuffer.new, zeros, hN]

theorem new_data (N : Nat) : (FixedBuffer.new N).data = [] := by
  simp [FixedBuffer.data, FixedBuffer.new]

/-- from a fresh (or reset) buffer: any chunking of `msg` -/
theorem inputMany_from_empty {σ : Type} {N : Nat} (hN : 0 < N) (func : σ → Bytes → Option σ)
    (compress : σ → Bytes → σ) (hf : FuncIsBlocks N func compress) (chunks : List Bytes)
    (b : FixedBuffer) (st : σ) (hwf : WF N b) (h0 : b.buffer_idx = 0) :
    ∃ b', inputMany N func chunks b st = some (b', (fullBlocks N chunks.flatten).foldl compress st)
      ∧ WF N b' ∧ b'.data = blockTail N chunks.flatten := by
  have hd : b.data = [] := by simp [FixedBuffer.data, h0]
  have := inputMany_spec hN func compress hf chunks b st hwf
  simpa [hd] using this

/-! ### padding -/

/-- buffer with array size `N` whose live bytes are `d` -/
def Holds (N : Nat) (b : FixedBuffer) (d : Bytes) : Prop :=
  b.buffer.length = N ∧ b.buffer_idx ≤ N ∧ b.data = d

theorem Holds.idx {N : Nat} {b : FixedBuffer} {d : Bytes} (h : Holds N b d) : b.buffer_idx = d.length := by
  obtain ⟨h1, h2, h3⟩ := h
  rw [← h3]; unfold FixedBuffer.data; rw [List.length_take]; omega

theorem WF.holds {N : Nat} {b : FixedBuffer} (h : WF N b) : Holds N b b.data :=
  ⟨h.1, Nat.le_of_lt h.2, rfl⟩

theorem next_write_spec {N : Nat} {b : FixedBuffer} {d : Bytes} (h : Holds N b d) (I : Nat) (v : Bytes)
    (hv : v.length = I) (hfit : d.length + I ≤ N) :
    ∃ b', b.next_write I v = some b' ∧ Holds N b' (d ++ v) := by
  have hi := h.idx
  obtain ⟨h1, h2, h3⟩ := h
  unfold FixedBuffer.next_write
  simp only [hv, ne_eq, not_true_eq_false, if_false]
  rw [copy_from_slice_eq (Nat.le_add_right _ _) (by omega) (by omega)]
  refine ⟨_, rfl, ?_, ?_, ?_⟩
  · simp; omega
  · simp; omega
  · simp only [FixedBuffer.data] at h3 ⊢
    have hl : (List.take b.buffer_idx b.buffer).length = b.buffer_idx := by simp; omega
    rw [List.take_left' (by simp [hl, hv]), h3]

theorem zero_until_spec {N : Nat} {b : FixedBuffer} {d : Bytes} (h : Holds N b d) (idx : Nat)
    (hge : d.length ≤ idx) (hle : idx ≤ N) :
    ∃ b', b.zero_until idx = some b' ∧ Holds N b' (d ++ zeros (idx - d.length)) := by
  have hi := h.idx
  obtain ⟨h1, h2, h3⟩ := h
  unfold FixedBuffer.zero_until
  simp only [Nat.not_lt.mpr (hi ▸ hge), if_false]
  rw [copy_from_slice_eq (by omega) (by omega) (by simp [zeros])]
  refine ⟨_, rfl, ?_, ?_, ?_⟩
  · simp [zeros]; omega
  · simpa using hle
  · simp only [FixedBuffer.data] at h3 ⊢
    have hl : (List.take b.buffer_idx b.buffer).length = b.buffer_idx := by simp; omega
    have hz : (zeros (idx - b.buffer_idx)).length = idx - b.buffer_idx := by simp [zeros]
    rw [List.take_left' (by simp [hl, hz]; omega), h3, hi]

theorem full_buffer_spec {N : Nat} {b : FixedBuffer} {d : Bytes} (h : Holds N b d) (hfull : d.length = N) :
    ∃ b', b.full_buffer N = some (b', d) ∧ Holds N b' [] ∧ b'.buffer_idx = 0 := by
  have hi := h.idx
  obtain ⟨h1, h2, h3⟩ := h
  unfold FixedBuffer.full_buffer
  have : b.buffer = d := by
    rw [← h3]; unfold FixedBuffer.data; rw [List.take_of_length_le (by omega)]
  simp only [hi, hfull, ne_eq, not_true_eq_false, if_false, this]
  refine ⟨_, rfl, ⟨?_, ?_, ?_⟩, rfl⟩
  · simp [← this, h1]
  · simp
  · simp [FixedBuffer.data]



open Cx.Spec.MD (padZeros)

theorem padZeros_fit {N L a : Nat} (_hN : 0 < N) (h : a + 1 + L ≤ N) : padZeros N L a = N - (a + 1 + L) := by
  unfold padZeros
  rcases Nat.lt_or_eq_of_le h with h | h
  · rw [Nat.mod_eq_of_lt h, Nat.mod_eq_of_lt (by omega)]
  · rw [h, Nat.mod_self, Nat.sub_zero, Nat.mod_self, Nat.sub_self]

theorem padZeros_wrap {N L a : Nat} (_hN : 0 < N) (h1 : N < a + 1 + L) (h2 : a + 1 + L ≤ 2 * N) :
    padZeros N L a = 2 * N - (a + 1 + L) := by
  unfold padZeros
  rw [Nat.mod_eq_sub_mod (Nat.le_of_lt h1)]
  rcases Nat.lt_or_eq_of_le h2 with h | h
  · have e1 : (a + 1 + L - N) % N = a + 1 + L - N := Nat.mod_eq_of_lt (by omega)
    rw [e1, Nat.mod_eq_of_lt (by omega)]; omega
  · have : a + 1 + L - N = N := by omega
    rw [this, Nat.mod_self, Nat.sub_zero, Nat.mod_self]; omega

theorem padZeros_mod {N L a : Nat} : padZeros N L (a % N) = padZeros N L a := by
  unfold padZeros
  have : (a % N + 1 + L) % N = (a + 1 + L) % N := by
    rw [Nat.add_assoc, Nat.add_assoc, Nat.mod_add_mod]
  rw [this]

theorem zeros_add (a b : Nat) : zeros (a + b) = zeros a ++ zeros b := by
  simp [zeros, List.replicate_append_replicate]

theorem zeros_length (a : Nat) : (zeros a).length = a := by simp [zeros]

/-- what a length writer must do: append `lenBytes` to the live bytes when they fit -/
def WritesLen (N : Nat) (wr : FixedBuffer → Option FixedBuffer) (lenBytes : Bytes) : Prop :=
  ∀ (b : FixedBuffer) (d : Bytes), Holds N b d → d.length + lenBytes.length ≤ N →
    ∃ b', wr b = some b' ∧ Holds N b' (d ++ lenBytes)

theorem next_write_WritesLen (N rem : Nat) (lenBytes : Bytes) (hlb : lenBytes.length = rem) :
    WritesLen N (fun b => b.next_write rem lenBytes) lenBytes := by
  intro b d h hfit
  exact next_write_spec h rem lenBytes hlb (by omega)

theorem next_write_twice_WritesLen (N I : Nat) (lo hi : Bytes) (hlo : lo.length = I) (hhi : hi.length = I) :
    WritesLen N (next_write_twice I lo hi) (lo ++ hi) := by
  intro b d h hfit
  simp only [List.length_append] at hfit
  obtain ⟨b1, e1, H1⟩ := next_write_spec h I lo hlo (by omega)
  obtain ⟨b2, e2, H2⟩ := next_write_spec H1 I hi hhi (by simp; omega)
  refine ⟨b2, ?_, by simpa using H2⟩
  simp [next_write_twice, e1, e2]

/-- **`standard_padding` followed by the length field and the last compression** (C01 (ii)): both branches
    (`N - idx - 1 < rem` or not) produce exactly `data ‖ 0x80 ‖ 0^z ‖ length field` cut into blocks, with
    `z = Spec.MD.padZeros`; it never panics; the buffer ends empty. -/
theorem md_finish_with_spec {σ : Type} {N rem : Nat} (hN : 0 < N) (hrem : rem ≤ N) (b : FixedBuffer)
    (wr : FixedBuffer → Option FixedBuffer) (lenBytes : Bytes) (hlb : lenBytes.length = rem)
    (hwr : WritesLen N wr lenBytes)
    (func : σ → Bytes → Option σ) (compress : σ → Bytes → σ) (st : σ)
    (hwf : WF N b) (hf : FuncOneBlock N func compress) :
    ∃ b', md_finish_with N rem wr b func st
        = some (b', (fullBlocks N (b.data ++ [(0x80 : UInt8)] ++ zeros (padZeros N rem b.data.length)
                      ++ lenBytes)).foldl compress st)
      ∧ WF N b' ∧ b'.buffer_idx = 0 := by
  have hdl := data_length hwf
  have hlt : b.data.length < N := by rw [hdl]; exact hwf.2
  unfold md_finish_with FixedBuffer.standard_padding
  obtain ⟨b1, e1, H1⟩ := next_write_spec hwf.holds 1 [(128 : UInt8)] rfl (by omega)
  have hi1 := H1.idx
  simp only [List.length_append, List.length_cons, List.length_nil] at hi1
  rw [e1]
  simp only [Nat.not_lt.mpr H1.2.1, if_false]
  by_cases hbr : N - b1.buffer_idx < rem
  · -- not enough room for the length field: an extra block
    simp only [hbr, if_true]
    obtain ⟨b2, e2, H2⟩ := zero_until_spec H1 N (by simp; omega) (Nat.le_refl _)
    rw [e2]; simp only []
    obtain ⟨b3, e3, H3, hz3⟩ := full_buffer_spec H2 (by simp [zeros_length]; omega)
    rw [e3]; simp only []
    rw [hf st _ (by simp [zeros_length]; omega)]
    simp only [Nat.not_lt.mpr hrem, if_false]
    obtain ⟨b4, e4, H4⟩ := zero_until_spec H3 (N - rem) (by simp) (by omega)
    rw [e4]; simp only []
    obtain ⟨b5, e5, H5⟩ := hwr _ _ H4 (by simp [zeros_length, hlb]; omega)
    rw [e5]; simp only []
    obtain ⟨b6, e6, H6, hz6⟩ := full_buffer_spec H5 (by simp [zeros_length, hlb]; omega)
    rw [e6]; simp only []
    rw [hf _ _ (by simp [zeros_length, hlb]; omega)]
    refine ⟨b6, ?_, ⟨H6.1, by omega⟩, hz6⟩
    have hz : padZeros N rem b.data.length = (N - (b.data.length + 1)) + (N - rem) := by
      rw [padZeros_wrap hN (by omega) (by omega)]; omega
    rw [hz, zeros_add]
    have hb1 : (b.data ++ [(0x80 : UInt8)] ++ zeros (N - (b.data.length + 1))).length = N := by
      simp [zeros_length]; omega
    have hb2 : (zeros (N - rem) ++ lenBytes).length = N := by simp [zeros_length, hlb]; omega
    have e : b.data ++ [(0x80 : UInt8)] ++ (zeros (N - (b.data.length + 1)) ++ zeros (N - rem)) ++ lenBytes
        = (b.data ++ [(0x80 : UInt8)] ++ zeros (N - (b.data.length + 1)))
          ++ ((zeros (N - rem) ++ lenBytes) ++ []) := by simp
    rw [e, fullBlocks_cons hN hb1, fullBlocks_cons hN hb2, fullBlocks_of_lt (by simpa using hN)]
    simp
  · -- the length field fits into the current block
    simp only [hbr, if_false, Nat.not_lt.mpr hrem]
    obtain ⟨b4, e4, H4⟩ := zero_until_spec H1 (N - rem) (by simp; omega) (by omega)
    rw [e4]; simp only []
    obtain ⟨b5, e5, H5⟩ := hwr _ _ H4 (by simp [zeros_length, hlb]; omega)
    rw [e5]; simp only []
    obtain ⟨b6, e6, H6, hz6⟩ := full_buffer_spec H5 (by simp [zeros_length, hlb]; omega)
    rw [e6]; simp only []
    rw [hf _ _ (by simp [zeros_length, hlb]; omega)]
    refine ⟨b6, ?_, ⟨H6.1, by omega⟩, hz6⟩
    have hz : padZeros N rem b.data.length = N - rem - (b.data.length + 1) := by
      rw [padZeros_fit hN (by omega)]; omega
    have hb : (b.data ++ [(0x80 : UInt8)] ++ zeros (N - rem - (b.data.length + 1)) ++ lenBytes).length = N := by
      simp [zeros_length, hlb]; omega
    have := fullBlocks_cons hN (r := []) hb
    simp only [List.append_nil] at this
    rw [hz, this, fullBlocks_of_lt (by simpa using hN)]
    simp



theorem md_finish_spec {σ : Type} {N rem : Nat} (hN : 0 < N) (hrem : rem ≤ N) (b : FixedBuffer)
    (lenBytes : Bytes) (hlb : lenBytes.length = rem)
    (func : σ → Bytes → Option σ) (compress : σ → Bytes → σ) (st : σ)
    (hwf : WF N b) (hf : FuncOneBlock N func compress) :
    ∃ b', md_finish N rem lenBytes b func st
        = some (b', (fullBlocks N (b.data ++ [(0x80 : UInt8)] ++ zeros (padZeros N rem b.data.length)
                      ++ lenBytes)).foldl compress st)
      ∧ WF N b' ∧ b'.buffer_idx = 0 :=
  md_finish_with_spec hN hrem b _ lenBytes hlb (next_write_WritesLen N rem lenBytes hlb) func compress st hwf hf

/-- FIPS 180-4 §5.1: `padZeros` IS "the smallest non-negative solution" (byte granularity) -/
theorem padZeros_spec {B L len : Nat} (hB : 0 < B) :
    (len + 1 + padZeros B L len + L) % B = 0
    ∧ ∀ z, z < padZeros B L len → (len + 1 + z + L) % B ≠ 0 := by
  unfold padZeros
  have hdm := Nat.div_add_mod (len + 1 + L) B
  have hr := Nat.mod_lt (len + 1 + L) hB
  generalize (len + 1 + L) % B = r at *
  generalize (len + 1 + L) / B = q at *
  by_cases h0 : r = 0
  · subst h0
    simp only [Nat.sub_zero, Nat.mod_self, Nat.add_zero]
    refine ⟨?_, fun z hz => by omega⟩
    have : len + 1 + L = B * q := by omega
    rw [this]; exact Nat.mul_mod_right _ _
  · have hz : (B - r) % B = B - r := Nat.mod_eq_of_lt (by omega)
    rw [hz]
    constructor
    · have : len + 1 + (B - r) + L = B * (q + 1) := by rw [Nat.mul_add]; omega
      rw [this]; exact Nat.mul_mod_right _ _
    · intro z hz'
      have : len + 1 + z + L = B * q + (r + z) := by omega
      rw [this, Nat.mul_add_mod, Nat.mod_eq_of_lt (by omega)]
      omega

/-! ### the length fields -/

theorem len_be64_eq {len : Nat} (h : len < 2 ^ 61) : len_be64 (len % 2 ^ 64) = Cx.Spec.MD.be64 (8 * len) := by
  unfold len_be64 Cx.Spec.MD.be64
  congr 1; omega

theorem len_be128_eq {len : Nat} (h : len < 2 ^ 125) : len_be128 (len % 2 ^ 128) = Cx.Spec.MD.be128 (8 * len) := by
  unfold len_be128 Cx.Spec.MD.be128
  congr 1; omega

theorem natToLE_length (n v : Nat) : (natToLE n v).length = n := by
  induction n generalizing v with
  | zero => rfl
  | succ n ih => simp [natToLE, ih]

theorem natToBE_length (n v : Nat) : (natToBE n v).length = n := by
  simp [natToBE, natToLE_length]

theorem len_be64_length (pb : Nat) : (len_be64 pb).length = 8 := natToBE_length _ _
theorem len_be128_length (pb : Nat) : (len_be128 pb).length = 16 := natToBE_length _ _

/-- RIPEMD-160's two little-endian words `(pb << 3) as u32`, `(pb >> 29) as u32` are the 64-bit LE bit length -/
theorem len_le64_split_eq {len : Nat} (h : len < 2 ^ 61) :
    (len_le64_split (len % 2 ^ 64)).1 ++ (len_le64_split (len % 2 ^ 64)).2 = Cx.Spec.MD.le64 (8 * len) := by
  unfold len_le64_split Cx.Spec.MD.le64
  simp only [natToLE, List.cons_append, List.nil_append]
  have e : len % 2 ^ 64 = len := Nat.mod_eq_of_lt (by omega)
  rw [e]
  repeat (first | rfl | (rw [List.cons.injEq]; refine ⟨congrArg UInt8.ofNat (by omega), ?_⟩))

/-- the padding of the tail, folded after the full blocks of the message, is the whole `Spec.MD.hash`
    (the step lemma state machines use at a finalisation) -/
theorem md_hash_split {σ : Type} {N : Nat} (hN : 0 < N) (rem : Nat) (compress : σ → Bytes → σ) (iv : σ)
    (lenEnc : Nat → Bytes) (msg : Bytes) :
    (fullBlocks N (blockTail N msg ++ [(0x80 : UInt8)] ++ zeros (padZeros N rem (blockTail N msg).length)
        ++ lenEnc (8 * msg.length))).foldl compress ((fullBlocks N msg).foldl compress iv)
      = Cx.Spec.MD.hash N rem lenEnc compress iv msg := by
  unfold Cx.Spec.MD.hash Cx.Spec.MD.pad
  rw [blockTail_length, padZeros_mod]
  rw [List.append_assoc msg, List.append_assoc msg, fullBlocks_append hN msg, List.foldl_append]
  simp [List.append_assoc]

/-! ### end to end: any chunking, then finish = `Spec.MD.hash` -/

/-- **Merkle–Damgård refinement.**  Starting from an empty buffer and chaining value `iv`, feed `msg` in ANY
    chunking, then run the finish sequence with a length writer that appends `lenEnc (8·|msg|)`: no panic, and
    the chaining value is `Spec.MD.hash` (FIPS padding, blocks, iteration). -/
theorem md_hash_spec {σ : Type} {N rem : Nat} (hN : 0 < N) (hrem : rem ≤ N)
    (func funcFin : σ → Bytes → Option σ) (compress : σ → Bytes → σ)
    (hf : FuncIsBlocks N func compress) (hf1 : FuncOneBlock N funcFin compress)
    (lenEnc : Nat → Bytes) (wr : FixedBuffer → Option FixedBuffer)
    (chunks : List Bytes) (hlen : (lenEnc (8 * chunks.flatten.length)).length = rem)
    (hwr : WritesLen N wr (lenEnc (8 * chunks.flatten.length)))
    (b0 : FixedBuffer) (iv : σ) (hwf : WF N b0) (h0 : b0.buffer_idx = 0) :
    ∃ b1 st1 b2, inputMany N func chunks b0 iv = some (b1, st1)
      ∧ md_finish_with N rem wr b1 funcFin st1
          = some (b2, Cx.Spec.MD.hash N rem lenEnc compress iv chunks.flatten)
      ∧ WF N b2 ∧ b2.buffer_idx = 0 := by
  obtain ⟨b1, e1, hw1, hd1⟩ := inputMany_from_empty hN func compress hf chunks b0 iv hwf h0
  obtain ⟨b2, e2, hw2, hz2⟩ := md_finish_with_spec hN hrem b1 wr _ hlen hwr funcFin compress
    ((fullBlocks N chunks.flatten).foldl compress iv) hw1 hf1
  refine ⟨b1, _, b2, e1, ?_, hw2, hz2⟩
  rw [e2]
  congr 2
  unfold Cx.Spec.MD.hash Cx.Spec.MD.pad
  rw [hd1, blockTail_length, padZeros_mod]
  rw [List.append_assoc chunks.flatten, List.append_assoc chunks.flatten, fullBlocks_append hN chunks.flatten,
    List.foldl_append]
  simp [List.append_assoc]

end Cx.Proofs.FB
