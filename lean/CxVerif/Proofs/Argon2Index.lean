/-
  Proofs.Argon2Index — the index arithmetic of Argon2: memory geometry of the `Params` builder vs RFC 9106 3.2
  (m', q, segment length), the reference set W of 3.4.2 as a cyclic window `n ↦ (start + n) mod q`, `n < |W|`,
  and `index_alpha` = "the zz-th element of W" with every u32/u64 operation in range.  Core Lean only.
-/
import CxVerif.Impl.Argon2
namespace Cx.Proofs.Argon2
open Cx Cx.Spec.Argon2
open Cx.Impl.Argon2 (index_alpha subU add32 mul32 mul64 add64 remU divU SYNC_POINTS BlockPos)

/-! ### lists -/

theorem mod_wrap (x q : Nat) (h : x < 2 * q) : x % q = if x < q then x else x - q := by
  split
  · exact Nat.mod_eq_of_lt ‹_›
  · rw [Nat.mod_eq_sub_mod (by omega), Nat.mod_eq_of_lt (by omega)]

theorem getElem?_range'_ite (s n m : Nat) : (List.range' s n)[m]? = if m < n then some (s + m) else none := by
  split
  · rw [List.getElem?_range' ‹_›]; simp
  · exact List.getElem?_eq_none (by simp; omega)

theorem getElem?_range_ite (n m : Nat) : (List.range n)[m]? = if m < n then some m else none := by
  split
  · exact List.getElem?_range ‹_›
  · exact List.getElem?_eq_none (by simp; omega)

/-- removing the (unique) image of the last index from `map f (range N)` -/
theorem filter_last (f : Nat → Nat) (N : Nat) (hN : 1 ≤ N) (hinj : ∀ a, a < N - 1 → f a ≠ f (N - 1)) :
    ((List.range N).map f).filter (· != f (N - 1)) = (List.range (N - 1)).map f := by
  obtain ⟨M, rfl⟩ : ∃ M, N = M + 1 := ⟨N - 1, by omega⟩
  simp only [Nat.add_sub_cancel] at *
  rw [List.range_succ, List.map_append, List.filter_append]
  have h1 : ((List.range M).map f).filter (· != f M) = (List.range M).map f := by
    rw [List.filter_eq_self]
    intro a ha
    simp only [List.mem_map, List.mem_range] at ha
    obtain ⟨b, hb, rfl⟩ := ha
    simpa using hinj b hb
  rw [h1]
  simp

theorem dropLast_map_range (f : Nat → Nat) (N : Nat) :
    ((List.range N).map f).dropLast = (List.range (N - 1)).map f := by
  cases N with
  | zero => simp
  | succ M => rw [List.range_succ, List.map_append]; simp

/-! ### geometry -/

/-- RFC 9106 3.2 step 2 / 3.4 for p ≥ 1: `q = 4 ⌊m/4p⌋`, segment length `⌊m/4p⌋`, `m' = p q` -/
theorem geometry (c : Params) (hp : 1 ≤ c.p) :
    q c = 4 * (c.m / (4 * c.p)) ∧ segLen c = c.m / (4 * c.p) ∧ mPrime c = c.p * q c := by
  have hq : q c = 4 * (c.m / (4 * c.p)) := by
    unfold q mPrime
    rw [Nat.mul_comm 4 c.p, Nat.mul_assoc, Nat.mul_div_cancel_left _ (by omega : 0 < c.p)]
  refine ⟨hq, ?_, ?_⟩
  · unfold segLen SL; rw [hq]; omega
  · rw [hq]; unfold mPrime; rw [Nat.mul_comm 4 c.p, Nat.mul_assoc]

theorem q_eq (c : Params) (hp : 1 ≤ c.p) : q c = 4 * segLen c := by
  obtain ⟨h1, h2, _⟩ := geometry c hp
  rw [h1, h2]

/-- m ≥ 8p gives segments of at least two blocks -/
theorem segLen_ge (c : Params) (hp : 1 ≤ c.p) (hm : 8 * c.p ≤ c.m) : 2 ≤ segLen c := by
  rw [(geometry c hp).2.1]
  exact (Nat.le_div_iff_mul_le (by omega)).mpr (by omega)

theorem mPrime_le (c : Params) : mPrime c ≤ c.m := by
  unfold mPrime
  exact Nat.mul_div_le c.m (4 * c.p)

/-! ### the reference set W (3.4.2) as a window -/

/-- first column of the window: 0 in pass 0 and in the last slice, else the start of the next slice -/
def startPos (seg r sl : Nat) : Nat := if r ≠ 0 then (if sl = 3 then 0 else (sl + 1) * seg) else 0

/-- |W| -/
def areaSize (seg r sl k : Nat) (same : Bool) : Nat :=
  if r = 0 then
    if sl = 0 then k - 1
    else if same then sl * seg + k - 1
    else if k = 0 then sl * seg - 1
    else sl * seg
  else
    if same then 4 * seg - seg + k - 1
    else if k = 0 then 4 * seg - seg - 1
    else 4 * seg - seg

/-- the finished segments followed by the blocks already built in the current segment (`k` of them):
    a window of the cyclic column order starting at `startPos` -/
theorem all_eq (c : Params) (hq : q c = 4 * segLen c) (r sl k : Nat) (hsl : sl < 4) (hk : k ≤ segLen c) :
    finishedCols c r sl ++ List.range' (sl * segLen c) k =
      (List.range ((if r = 0 then sl * segLen c else 3 * segLen c) + k)).map
        (fun n => (startPos (segLen c) r sl + n) % q c) := by
  unfold finishedCols sliceCols startPos
  rw [hq]
  generalize segLen c = seg at *
  apply List.ext_getElem?
  intro n
  have : sl = 0 ∨ sl = 1 ∨ sl = 2 ∨ sl = 3 := by omega
  rcases this with h | h | h | h <;> subst h <;> by_cases hr : r = 0 <;>
    simp [hr, List.range_succ, SL, List.getElem?_append, getElem?_range'_ite, List.getElem?_map, getElem?_range_ite] <;>
    (repeat' split) <;> simp_all <;> (try rw [mod_wrap _ _ (by omega)]) <;> (try split) <;> omega

theorem finished_eq (c : Params) (hq : q c = 4 * segLen c) (r sl : Nat) (hsl : sl < 4) :
    finishedCols c r sl = (List.range (if r = 0 then sl * segLen c else 3 * segLen c)).map
      (fun n => (startPos (segLen c) r sl + n) % q c) := by
  have := all_eq c hq r sl 0 hsl (Nat.zero_le _)
  simpa using this

/-- RFC 9106 3.4.2: W is the window of `areaSize` columns starting at `startPos` of the cyclic column order -/
theorem refSet_eq (c : Params) (hq : q c = 4 * segLen c) (hseg : 2 ≤ segLen c) (r sl k : Nat) (same : Bool)
    (hsl : sl < 4) (hk : k < segLen c) (h0 : r = 0 ∧ sl = 0 → same = true ∧ 1 ≤ k) :
    refSet c r sl k same = (List.range (areaSize (segLen c) r sl k same)).map
      (fun n => (startPos (segLen c) r sl + n) % q c) := by
  unfold refSet
  simp only []
  by_cases hs : same = true
  · rw [if_pos hs, all_eq c hq r sl k hsl (by omega)]
    have hN : (sl * segLen c + k + q c - 1) % q c =
        (fun n => (startPos (segLen c) r sl + n) % q c) ((if r = 0 then sl * segLen c else 3 * segLen c) + k - 1) := by
      simp only [startPos]
      rw [hq]
      generalize segLen c = seg at *
      have : sl = 0 ∨ sl = 1 ∨ sl = 2 ∨ sl = 3 := by omega
      rcases this with h | h | h | h <;> subst h <;> by_cases hr : r = 0 <;> simp [hr] <;>
        (try have := (h0 ⟨hr, rfl⟩).2) <;>
        rw [mod_wrap _ _ (by omega), mod_wrap _ _ (by omega)] <;> (repeat' split) <;> omega
    rw [hN]
    refine (filter_last (fun n => (startPos (segLen c) r sl + n) % q c)
      ((if r = 0 then sl * segLen c else 3 * segLen c) + k) ?_ ?_).trans ?_
    rotate_left 2
    · congr 2
      unfold areaSize
      subst hs
      generalize segLen c = seg at *
      by_cases hr : r = 0 <;> by_cases hs0 : sl = 0 <;> simp [hr, hs0] <;> omega
    · generalize segLen c = seg at *
      by_cases hr : r = 0
      · have := h0
        simp only [hr, if_true]
        by_cases hs0 : sl = 0
        · have := (h0 ⟨hr, hs0⟩).2; omega
        · have : 1 ≤ sl * seg := Nat.mul_pos (by omega) (by omega); omega
      · simp only [hr, if_false]; omega
    · intro a ha
      simp only [startPos]
      rw [hq]
      generalize segLen c = seg at *
      have : sl = 0 ∨ sl = 1 ∨ sl = 2 ∨ sl = 3 := by omega
      rcases this with h | h | h | h <;> subst h <;> by_cases hr : r = 0 <;> simp [hr] at ha ⊢ <;>
        rw [mod_wrap _ _ (by omega), mod_wrap _ _ (by omega)] <;> (repeat' split) <;> omega
  · have hs' : same = false := by simpa using hs
    have hne : ¬ (r = 0 ∧ sl = 0) := fun h => by have := (h0 h).1; simp [hs'] at this
    rw [if_neg hs, finished_eq c hq r sl hsl]
    subst hs'
    by_cases hk0 : k = 0
    · rw [if_pos hk0, dropLast_map_range]
      congr 2
      unfold areaSize
      by_cases hr : r = 0 <;> by_cases hs0 : sl = 0 <;> simp [hr, hs0, hk0] <;> first | omega | (exact absurd ⟨hr, hs0⟩ hne)
    · rw [if_neg hk0]
      congr 2
      unfold areaSize
      by_cases hr : r = 0 <;> by_cases hs0 : sl = 0 <;> simp [hr, hs0, hk0] <;> first | omega | (exact absurd ⟨hr, hs0⟩ hne)

/-! ### index_alpha -/

theorem mapJ1_le (J1 size : Nat) : mapJ1 J1 size ≤ size - 1 := by
  unfold mapJ1; simp only []; omega

theorem sq_lt (J1 : Nat) (h : J1 < 2 ^ 32) : J1 * J1 < 2 ^ 64 :=
  calc J1 * J1 < 2 ^ 32 * 2 ^ 32 := Nat.mul_lt_mul'' h h
    _ = 2 ^ 64 := by decide

theorem x_lt (J1 : Nat) (h : J1 < 2 ^ 32) : J1 * J1 / 2 ^ 32 < 2 ^ 32 :=
  Nat.div_lt_of_lt_mul (by simpa using sq_lt J1 h)

theorem area_x_lt (size x : Nat) (hs : size < 2 ^ 32) (hx : x < 2 ^ 32) : size * x < 2 ^ 64 :=
  calc size * x < 2 ^ 32 * 2 ^ 32 := Nat.mul_lt_mul'' hs hx
    _ = 2 ^ 64 := by decide

theorem y_le (size x : Nat) (hs : 1 ≤ size) (hx : x < 2 ^ 32) : size * x / 2 ^ 32 ≤ size - 1 := by
  have : size * x / 2 ^ 32 < size := Nat.div_lt_of_lt_mul (by
    rw [Nat.mul_comm (2 ^ 32)]; exact Nat.mul_lt_mul_of_pos_left hx (by omega))
  omega

/-- in-range positions: slice < 4, index inside the segment, segments of ≥ 2 blocks, lanes addressable in u32,
    and the first two blocks of pass 0 / slice 0 are not recomputed (starting index 2) -/
structure InRange (seg r sl k : Nat) (same : Bool) : Prop where
  seg2 : 2 ≤ seg
  lane32 : 4 * seg < 2 ^ 32
  sl4 : sl < 4
  kseg : k < seg
  first : r = 0 ∧ sl = 0 → same = true ∧ 2 ≤ k

theorem areaSize_pos {seg r sl k : Nat} {same : Bool} (h : InRange seg r sl k same) :
    1 ≤ areaSize seg r sl k same ∧ areaSize seg r sl k same < 4 * seg := by
  obtain ⟨h1, h2, h3, h4, h5⟩ := h
  unfold areaSize
  have : sl = 0 ∨ sl = 1 ∨ sl = 2 ∨ sl = 3 := by omega
  rcases this with h | h | h | h <;> subst h <;> by_cases hr : r = 0 <;> cases same <;> by_cases hk : k = 0 <;>
    simp [hr, hk] at h5 ⊢ <;> omega

theorem add32_some {a b : Nat} (h : a + b < 2 ^ 32) : add32 a b = some (a + b) := if_pos h
theorem mul32_some {a b : Nat} (h : a * b < 2 ^ 32) : mul32 a b = some (a * b) := if_pos h
theorem add64_some {a b : Nat} (h : a + b < 2 ^ 64) : add64 a b = some (a + b) := if_pos h
theorem mul64_some {a b : Nat} (h : a * b < 2 ^ 64) : mul64 a b = some (a * b) := if_pos h
theorem subU_some {a b : Nat} (h : b ≤ a) : subU a b = some (a - b) := if_pos h
theorem remU_some {a b : Nat} (h : 0 < b) : remU a b = some (a % b) := if_neg (Nat.ne_of_gt h)
theorem divU_some {a b : Nat} (h : 0 < b) : divU a b = some (a / b) := if_neg (Nat.ne_of_gt h)

/-- `reference_area_size` = |W|, every u32 operation in range -/
theorem reference_area_size_eq (params : Impl.Argon2.Params) (seg r lane sl k : Nat) (same : Bool)
    (hseg : params.segment_length = seg) (hlane : params.lane_length = 4 * seg) (h : InRange seg r sl k same) :
    index_alpha.reference_area_size params ⟨r, lane, sl, k⟩ same = some (areaSize seg r sl k same) := by
  obtain ⟨h1, h2, h3, h4, h5⟩ := h
  unfold index_alpha.reference_area_size areaSize
  simp only [hseg, hlane]
  have : sl = 0 ∨ sl = 1 ∨ sl = 2 ∨ sl = 3 := by omega
  rcases this with h | h | h | h <;> subst h <;> by_cases hr : r = 0 <;> cases same <;> by_cases hk : k = 0 <;>
    simp [hr, hk] at h5 ⊢ <;> simp (disch := omega) [subU_some, add32_some, mul32_some] <;> omega

/-- `start_position` = first column of the window, every u32 operation in range -/
theorem start_position_eq (params : Impl.Argon2.Params) (seg r lane sl k : Nat)
    (hseg : params.segment_length = seg) (h2 : 4 * seg < 2 ^ 32) (h3 : sl < 4) :
    index_alpha.start_position params ⟨r, lane, sl, k⟩ = some (startPos seg r sl) := by
  unfold index_alpha.start_position startPos SYNC_POINTS
  simp only [hseg]
  have : sl = 0 ∨ sl = 1 ∨ sl = 2 ∨ sl = 3 := by omega
  rcases this with h | h | h | h <;> subst h <;> by_cases hr : r = 0 <;>
    simp (disch := omega) [hr, add32_some, mul32_some]

theorem startPos_lt (seg r sl : Nat) (h3 : sl < 4) : startPos seg r sl < 4 * seg ∨ (seg = 0 ∧ startPos seg r sl = 0) := by
  unfold startPos
  have : sl = 0 ∨ sl = 1 ∨ sl = 2 ∨ sl = 3 := by omega
  rcases this with h | h | h | h <;> subst h <;> by_cases hr : r = 0 <;> simp [hr] <;> omega

/-- `index_alpha` computes column `(start + zz) mod q` with `zz = |W| − 1 − (|W|·(J1²/2^32))/2^32`;
    no u32/u64 operation overflows, underflows or divides by zero; the final `as u32` loses nothing -/
theorem index_alpha_window (params : Impl.Argon2.Params) (seg r lane sl k J1 : Nat) (same : Bool)
    (hseg : params.segment_length = seg) (hlane : params.lane_length = 4 * seg) (h : InRange seg r sl k same)
    (hJ : J1 < 2 ^ 32) :
    index_alpha params ⟨r, lane, sl, k⟩ J1 same =
      some ((startPos seg r sl + mapJ1 J1 (areaSize seg r sl k same)) % (4 * seg)) := by
  have hA := reference_area_size_eq params seg r lane sl k same hseg hlane h
  have hS := start_position_eq params seg r lane sl k hseg h.lane32 h.sl4
  obtain ⟨hs1, hs⟩ := areaSize_pos h
  have hst := startPos_lt seg r sl h.sl4
  have hseg2 := h.seg2
  have hl32 := h.lane32
  generalize areaSize seg r sl k same = size at *
  generalize startPos seg r sl = start at *
  have h1 := sq_lt J1 hJ
  have h2 := x_lt J1 hJ
  have h3 := area_x_lt size _ (by omega) h2
  have h4 := y_le size _ hs1 h2
  unfold index_alpha
  simp only [hA, hS, hlane, mul64, if_pos h1, Nat.shiftRight_eq_div_pow, bind, Option.bind, if_pos h3, subU, if_pos hs1,
    if_pos h4]
  have h5 : start + (size - 1 - size * (J1 * J1 / 2 ^ 32) / 2 ^ 32) < 2 ^ 64 := by omega
  simp only [add64, if_pos h5, remU, if_neg (show ¬ 4 * seg = 0 by omega), pure, mapJ1]
  congr 1
  exact Nat.mod_eq_of_lt (Nat.lt_trans (Nat.mod_lt _ (by omega)) hl32)

/-- RFC 9106 3.4.2: `z` is the zz-th element of W, and that element exists (`zz < |W|`, W not empty) -/
theorem refCol_window (c : Spec.Argon2.Params) (hq : q c = 4 * segLen c) (r sl k J1 : Nat) (same : Bool)
    (h : InRange (segLen c) r sl k same) :
    (refSet c r sl k same)[mapJ1 J1 (refSet c r sl k same).length]? =
      some ((startPos (segLen c) r sl + mapJ1 J1 (areaSize (segLen c) r sl k same)) % (4 * segLen c)) := by
  have hW := refSet_eq c hq h.seg2 r sl k same h.sl4 h.kseg (fun hh => ⟨(h.first hh).1, by have := (h.first hh).2; omega⟩)
  obtain ⟨hs1, _⟩ := areaSize_pos h
  rw [hW]
  simp only [List.length_map, List.length_range, List.getElem?_map]
  have hz := mapJ1_le J1 (areaSize (segLen c) r sl k same)
  rw [getElem?_range_ite, if_pos (by omega), hq]
  rfl

/-- the code's reference column is the RFC's `z` -/
theorem index_alpha_eq_refCol (c : Spec.Argon2.Params) (params : Impl.Argon2.Params) (hq : q c = 4 * segLen c)
    (hseg : params.segment_length = segLen c) (hlane : params.lane_length = q c)
    (r lane sl k J1 : Nat) (same : Bool) (h : InRange (segLen c) r sl k same) (hJ : J1 < 2 ^ 32) :
    index_alpha params ⟨r, lane, sl, k⟩ J1 same = some (refCol c r sl k same J1) := by
  rw [index_alpha_window params (segLen c) r lane sl k J1 same hseg (hlane.trans hq) h hJ]
  unfold refCol
  simp only []
  rw [List.getD_eq_getElem?_getD, refCol_window c hq r sl k J1 same h]
  rfl

/-! ### the `Params` builder -/

/-- what `parallelism_override_memory` leaves in the struct -/
def geomOf (s : Impl.Argon2.Params) : Impl.Argon2.Params :=
  let M := max s.memory_kb (8 * s.parallelism)
  { s with memory_kb := M, segment_length := M / (s.parallelism * 4),
           memory_blocks := M / (s.parallelism * 4) * (s.parallelism * 4), lane_length := M / (s.parallelism * 4) * 4 }

theorem override_eq (s : Impl.Argon2.Params) (hp : 1 ≤ s.parallelism) (hp2 : s.parallelism < 2 ^ 24) (hm : s.memory_kb < 2 ^ 32) :
    s.parallelism_override_memory = some (geomOf s) := by
  unfold Impl.Argon2.Params.parallelism_override_memory geomOf Impl.Argon2.SYNC_POINTS
  have h1 : 8 * s.parallelism < 2 ^ 32 := by omega
  have h2 : s.parallelism * 4 < 2 ^ 32 := by omega
  by_cases hlt : s.memory_kb < 8 * s.parallelism
  · have hM : max s.memory_kb (8 * s.parallelism) = 8 * s.parallelism := by omega
    have h3 : 8 * s.parallelism / (s.parallelism * 4) * (s.parallelism * 4) < 2 ^ 32 :=
      Nat.lt_of_le_of_lt (Nat.div_mul_le_self _ _) h1
    have h4 : 8 * s.parallelism / (s.parallelism * 4) * 4 < 2 ^ 32 := by
      have : 8 * s.parallelism / (s.parallelism * 4) ≤ 2 := by
        apply Nat.div_le_of_le_mul; omega
      omega
    simp (disch := omega) [mul32_some, divU_some, hlt, hM]
  · have hM : max s.memory_kb (8 * s.parallelism) = s.memory_kb := by omega
    have h3 : s.memory_kb / (s.parallelism * 4) * (s.parallelism * 4) < 2 ^ 32 :=
      Nat.lt_of_le_of_lt (Nat.div_mul_le_self _ _) hm
    have h4 : s.memory_kb / (s.parallelism * 4) * 4 < 2 ^ 32 := by
      have : s.memory_kb / (s.parallelism * 4) * 4 ≤ s.memory_kb / (s.parallelism * 4) * (s.parallelism * 4) :=
        Nat.mul_le_mul_left _ (by omega)
      omega
    simp (disch := omega) [mul32_some, divU_some, hlt, hM]
def tyOf : Ty → Impl.Argon2.Type'
  | .d => .Argon2d
  | .i => .Argon2i
  | .id => .Argon2id

/-- the code's `Params` holds the RFC parameters `c` and the geometry the RFC derives from them -/
structure Corr (params : Impl.Argon2.Params) (c : Params) : Prop where
  p : params.parallelism = c.p
  t : params.iterations = c.t
  m : params.memory_kb = c.m
  v : params.version = c.v
  y : params.hash_type = tyOf c.y
  blocks : params.memory_blocks = mPrime c
  seg : params.segment_length = segLen c
  lane : params.lane_length = q c

/-- the params the builder chain produces -/
def builtParams (y : Ty) (v t m p : Nat) : Impl.Argon2.Params :=
  let M := max m (8 * p)
  { parallelism := p, iterations := t, memory_kb := M, version := v, hash_type := tyOf y,
    memory_blocks := M / (p * 4) * (p * 4), segment_length := M / (p * 4), lane_length := M / (p * 4) * 4 }

theorem build_ok (y : Ty) (v t m p : Nat) (hv : v = 0x13 ∨ v = 0x10) (ht : 1 ≤ t) (hp : 1 ≤ p) (hp2 : p < 2 ^ 24)
    (hm : m < 2 ^ 32) :
    (Impl.Argon2.Params.def (tyOf y)).build v t m p = some (.ok (builtParams y v t m p)) := by
  unfold Impl.Argon2.Params.build Impl.Argon2.Params.memory_kb' Impl.Argon2.Params.iterations'
    Impl.Argon2.Params.parallelism' Impl.Argon2.Params.version'
  rw [override_eq _ (by simp [Impl.Argon2.Params.def]) (by simp [Impl.Argon2.Params.def]) (by simpa using hm)]
  simp only [if_neg (show ¬ t = 0 by omega), if_neg (show ¬ p ≥ 0x1000000 by omega), if_neg (show ¬ p = 0 by omega)]
  rw [override_eq _ (by simpa using hp) (by simpa using hp2) (by
    simp only [geomOf, Impl.Argon2.Params.def]; omega)]
  simp only [if_neg (show ¬¬(v = 19 ∨ v = 16) from fun h => h hv)]
  have hmax : max (max m (8 * 1)) (8 * p) = max m (8 * p) := by omega
  simp only [geomOf, Impl.Argon2.Params.def, builtParams, hmax]

theorem built_corr (y : Ty) (v t m p : Nat) (hp : 1 ≤ p) (hm : 8 * p ≤ m) :
    Corr (builtParams y v t m p) { y := y, v := v, t := t, m := m, p := p, T := 0 } := by
  have hM : max m (8 * p) = m := by omega
  obtain ⟨g1, g2, g3⟩ := geometry { y := y, v := v, t := t, m := m, p := p, T := 0 } hp
  simp only [] at g1 g2 g3
  refine ⟨rfl, rfl, ?_, rfl, rfl, ?_, ?_, ?_⟩ <;> simp only [builtParams, hM]
  · rw [g3, g1, Nat.mul_comm p 4]; generalize m / (4 * p) = k; ac_rfl
  · rw [g2, Nat.mul_comm p 4]
  · rw [g1, Nat.mul_comm p 4, Nat.mul_comm]

end Cx.Proofs.Argon2
