/-
  Proofs.Fe64Chain — the addition chains of fe/mod.rs: `invert z = z^(p−2)`, `pow25523 z = z^((p−5)/8)`.
-/
import CxVerif.Proofs.Fe64Square
namespace Cx.Proofs.Fe64
open Cx Cx.Spec Cx.Impl.Fe64
open Cx.Spec.Field25519 (p)

/-- `eval h` is the `e`-th power of `z` -/
def IsPow (z : Fe) (h : Fe) (e : Nat) : Prop := Tight h ∧ eval h = (eval z) ^ e % p

theorem eval_lt' (f : Fe) : eval f < p := Nat.mod_lt _ p_pos

theorem mul_pow {z a b : Fe} {i j : Nat} (ha : IsPow z a i) (hb : IsPow z b j) :
    ∃ h, mul a b = some h ∧ IsPow z h (i + j) := by
  obtain ⟨h, hh, ht, hv⟩ := mul_spec a b ha.1.loose hb.1.loose
  refine ⟨h, hh, ht, ?_⟩
  rw [hv, ha.2, hb.2]
  unfold Field25519.mul
  rw [← Nat.mul_mod, ← Nat.pow_add]

/-- multiplication by the base `z` itself (which is only Loose) -/
theorem mul_pow_base_left {z b : Fe} {j : Nat} (hz : Loose z) (hb : IsPow z b j) :
    ∃ h, mul z b = some h ∧ IsPow z h (1 + j) := by
  obtain ⟨h, hh, ht, hv⟩ := mul_spec z b hz hb.1.loose
  refine ⟨h, hh, ht, ?_⟩
  rw [hv, hb.2]
  unfold Field25519.mul
  rw [Nat.mul_mod, Nat.mod_mod, ← Nat.mul_mod, Nat.pow_add, Nat.pow_one]

theorem mul_pow_base_right {z a : Fe} {i : Nat} (hz : Loose z) (ha : IsPow z a i) :
    ∃ h, mul a z = some h ∧ IsPow z h (i + 1) := by
  obtain ⟨h, hh, ht, hv⟩ := mul_spec a z ha.1.loose hz
  refine ⟨h, hh, ht, ?_⟩
  rw [hv, ha.2]
  unfold Field25519.mul
  rw [Nat.mul_mod, Nat.mod_mod, ← Nat.mul_mod, Nat.pow_add, Nat.pow_one]

theorem square_pow_base {z : Fe} (hz : Loose z) : ∃ h, square z = some h ∧ IsPow z h 2 := by
  obtain ⟨h, hh, ht, hv⟩ := square_spec z hz
  refine ⟨h, hh, ht, ?_⟩
  rw [hv]; unfold Field25519.sq; rw [Nat.pow_two]

theorem square_pow {z a : Fe} {i : Nat} (ha : IsPow z a i) : ∃ h, square a = some h ∧ IsPow z h (i * 2) := by
  obtain ⟨h, hh, ht, hv⟩ := square_spec a ha.1.loose
  refine ⟨h, hh, ht, ?_⟩
  rw [hv, ha.2]; exact sq_pow _ _

theorem sqrep_pow {z a : Fe} {i : Nat} (n : Nat) (hn : 0 < n) (ha : IsPow z a i) :
    ∃ h, square_repeatdly a n = some h ∧ IsPow z h (i * 2^n) := by
  obtain ⟨h, hh, ht, _, hv⟩ := square_repeatdly_spec n a ha.1.loose
  refine ⟨h, hh, ht hn, ?_⟩
  rw [hv, ha.2, ← Nat.pow_mod, ← Nat.pow_mul]

theorem IsPow.cast {z a : Fe} {i j : Nat} (h : IsPow z a i) (e : i = j) : IsPow z a j := e ▸ h

/-- the shared prefix: `z11 = z^11`, `z_250_0 = z^(2^250 − 1)` -/
theorem chain250_spec (z : Fe) (hz : Loose z) :
    ∃ a b, chain250 z = some (a, b) ∧ IsPow z a 11 ∧ IsPow z b (2^250 - 1) := by
  simp only [chain250]
  obtain ⟨z2, e, h2⟩ := square_pow_base hz; rw [e, some_bind]
  obtain ⟨z8, e, h8⟩ := sqrep_pow 2 (by decide) h2; rw [e, some_bind]
  replace h8 : IsPow z z8 8 := h8.cast (by decide)
  obtain ⟨z9, e, h9⟩ := mul_pow_base_left hz h8; rw [e, some_bind]
  replace h9 : IsPow z z9 9 := h9.cast (by decide)
  obtain ⟨z11, e, h11⟩ := mul_pow h2 h9; rw [e, some_bind]
  replace h11 : IsPow z z11 11 := h11.cast (by decide)
  obtain ⟨z22, e, h22⟩ := square_pow h11; rw [e, some_bind]
  replace h22 : IsPow z z22 22 := h22.cast (by decide)
  obtain ⟨z_5_0, e, h_5_0⟩ := mul_pow h9 h22; rw [e, some_bind]
  replace h_5_0 : IsPow z z_5_0 (2^5 - 1) := h_5_0.cast (by decide)
  obtain ⟨z_10_5, e, h_10_5⟩ := sqrep_pow 5 (by decide) h_5_0; rw [e, some_bind]
  obtain ⟨z_10_0, e, h_10_0⟩ := mul_pow h_10_5 h_5_0; rw [e, some_bind]
  replace h_10_0 : IsPow z z_10_0 (2^10 - 1) := h_10_0.cast (by decide)
  obtain ⟨z_20_10, e, h_20_10⟩ := sqrep_pow 10 (by decide) h_10_0; rw [e, some_bind]
  obtain ⟨z_20_0, e, h_20_0⟩ := mul_pow h_20_10 h_10_0; rw [e, some_bind]
  replace h_20_0 : IsPow z z_20_0 (2^20 - 1) := h_20_0.cast (by decide)
  obtain ⟨z_40_20, e, h_40_20⟩ := sqrep_pow 20 (by decide) h_20_0; rw [e, some_bind]
  obtain ⟨z_40_0, e, h_40_0⟩ := mul_pow h_40_20 h_20_0; rw [e, some_bind]
  replace h_40_0 : IsPow z z_40_0 (2^40 - 1) := h_40_0.cast (by decide)
  obtain ⟨z_50_10, e, h_50_10⟩ := sqrep_pow 10 (by decide) h_40_0; rw [e, some_bind]
  obtain ⟨z_50_0, e, h_50_0⟩ := mul_pow h_50_10 h_10_0; rw [e, some_bind]
  replace h_50_0 : IsPow z z_50_0 (2^50 - 1) := h_50_0.cast (by decide)
  obtain ⟨z_100_50, e, h_100_50⟩ := sqrep_pow 50 (by decide) h_50_0; rw [e, some_bind]
  obtain ⟨z_100_0, e, h_100_0⟩ := mul_pow h_100_50 h_50_0; rw [e, some_bind]
  replace h_100_0 : IsPow z z_100_0 (2^100 - 1) := h_100_0.cast (by decide)
  obtain ⟨z_200_100, e, h_200_100⟩ := sqrep_pow 100 (by decide) h_100_0; rw [e, some_bind]
  obtain ⟨z_200_0, e, h_200_0⟩ := mul_pow h_200_100 h_100_0; rw [e, some_bind]
  replace h_200_0 : IsPow z z_200_0 (2^200 - 1) := h_200_0.cast (by decide)
  obtain ⟨z_250_50, e, h_250_50⟩ := sqrep_pow 50 (by decide) h_200_0; rw [e, some_bind]
  obtain ⟨z_250_0, e, h_250_0⟩ := mul_pow h_250_50 h_50_0; rw [e, some_bind]
  exact ⟨z11, z_250_0, rfl, h11, h_250_0.cast (by decide)⟩

/-- `pow25523 z = z^((p−5)/8)`, for every Loose `z` -/
theorem pow25523_spec (z : Fe) (hz : Loose z) :
    ∃ h, pow25523 z = some h ∧ Tight h ∧ eval h = Field25519.pow25523 (eval z) := by
  obtain ⟨a, b, e, _, hb⟩ := chain250_spec z hz
  simp only [pow25523]
  rw [e, some_bind]
  simp only []
  obtain ⟨c, e, hc⟩ := sqrep_pow 2 (by decide) hb; rw [e, some_bind]
  obtain ⟨d, e, hd⟩ := mul_pow_base_right hz hc
  refine ⟨d, e, hd.1, ?_⟩
  rw [hd.2, Cx.Proofs.Field25519.pow25523_eq]
  congr 2

/-- `invert z = z^(p−2)`, for every Loose `z` (including `z ≡ 0`, where the result is 0) -/
theorem invert_spec (z : Fe) (hz : Loose z) :
    ∃ h, invert z = some h ∧ Tight h ∧ eval h = Field25519.inv (eval z) := by
  obtain ⟨a, b, e, ha, hb⟩ := chain250_spec z hz
  simp only [invert]
  rw [e, some_bind]
  simp only []
  obtain ⟨c, e, hc⟩ := sqrep_pow 5 (by decide) hb; rw [e, some_bind]
  obtain ⟨d, e, hd⟩ := mul_pow hc ha
  refine ⟨d, e, hd.1, ?_⟩
  rw [hd.2, Cx.Proofs.Field25519.inv_eq]
  congr 2

end Cx.Proofs.Fe64
