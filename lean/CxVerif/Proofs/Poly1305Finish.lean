/-
  Proofs.Poly1305Finish — the arithmetic of `finish`: full carry, g = h + 5 − 2^130, mask select, packing into
  four u32, + pad modulo 2^128. For EVERY accumulator allowed by the invariant (incl. values in [p, 2^130)).
-/
import CxVerif.Proofs.Poly1305Arith
namespace Cx.Proofs.Poly1305
open Cx Cx.Impl.Poly1305

/-- `// fully carry h` -/
theorem fullcarry_rel (h0 h1 h2 h3 h4 h2a h3a h4a cx5 h0a h1b k0 k2 k3 k4 : Nat)
    (i0 : h0 < 2^26) (i1 : h1 < 2^26 + 64) (i2 : h2 < 2^26) (i3 : h3 < 2^26) (i4 : h4 < 2^26)
    (e2 : h2a = h2 + (h1 >>> 26)) (e3 : h3a = h3 + (h2a >>> 26)) (e4 : h4a = h4 + (h3a >>> 26))
    (ex : cx5 = (h4a >>> 26) * 5) (e0 : h0a = h0 + cx5)
    (e1 : h1b = (h1 &&& 0x3ffffff) + (h0a >>> 26))
    (f0 : k0 = h0a &&& 0x3ffffff) (f2 : k2 = h2a &&& 0x3ffffff) (f3 : k3 = h3a &&& 0x3ffffff)
    (f4 : k4 = h4a &&& 0x3ffffff) :
    h2a < 2^32 ∧ h3a < 2^32 ∧ h4a < 2^32 ∧ cx5 < 2^32 ∧ h0a < 2^32 ∧ h1b < 2^32 ∧
    k0 < 2^26 ∧ h1b < 2^26 ∧ k2 < 2^26 ∧ k3 < 2^26 ∧ k4 < 2^26 ∧
    k0 + 2^26 * h1b + 2^52 * k2 + 2^78 * k3 + 2^104 * k4 + (2^130 - 5) * (h4a >>> 26)
      = h0 + 2^26 * h1 + 2^52 * h2 + 2^78 * h3 + 2^104 * h4 := by
  simp only [Nat.shiftRight_eq_div_pow, and_mask26] at *
  omega

theorem mask_cases (b : Nat) (hb : b = 0 ∨ b = 1) :
    (b = 0 ∧ (b + (2^32 - 1)) % 2^32 = 0xffffffff ∧ ((b + (2^32 - 1)) % 2^32) ^^^ 0xffffffff = 0) ∨
    (b = 1 ∧ (b + (2^32 - 1)) % 2^32 = 0 ∧ ((b + (2^32 - 1)) % 2^32) ^^^ 0xffffffff = 0xffffffff) := by
  rcases hb with rfl | rfl
  · left; decide
  · right; decide

/-- `// compute h + -p` and `// select h if h < p, or h + -p if h >= p` -/
theorem select_rel (k0 k1 k2 k3 k4 g0 g1 g2 g3 g4 mask q0 q1 q2 q3 q4 : Nat)
    (i0 : k0 < 2^26) (i1 : k1 < 2^26) (i2 : k2 < 2^26) (i3 : k3 < 2^26) (i4 : k4 < 2^26)
    (eg0 : g0 = ((k0 + 5) % 2^32) &&& 0x3ffffff)
    (eg1 : g1 = ((k1 + (((k0 + 5) % 2^32) >>> 26)) % 2^32) &&& 0x3ffffff)
    (eg2 : g2 = ((k2 + (((k1 + (((k0 + 5) % 2^32) >>> 26)) % 2^32) >>> 26)) % 2^32) &&& 0x3ffffff)
    (eg3 : g3 = ((k3 + (((k2 + (((k1 + (((k0 + 5) % 2^32) >>> 26)) % 2^32) >>> 26)) % 2^32) >>> 26)) % 2^32) &&& 0x3ffffff)
    (eg4 : g4 = ((k4 + (((k3 + (((k2 + (((k1 + (((k0 + 5) % 2^32) >>> 26)) % 2^32) >>> 26)) % 2^32) >>> 26)) % 2^32) >>> 26)) % 2^32
                  + (2^32 - (1 <<< 26))) % 2^32)
    (em : mask = ((g4 >>> (32 - 1)) + (2^32 - 1)) % 2^32)
    (eq0 : q0 = (k0 &&& (mask ^^^ 0xffffffff)) ||| (g0 &&& mask))
    (eq1 : q1 = (k1 &&& (mask ^^^ 0xffffffff)) ||| (g1 &&& mask))
    (eq2 : q2 = (k2 &&& (mask ^^^ 0xffffffff)) ||| (g2 &&& mask))
    (eq3 : q3 = (k3 &&& (mask ^^^ 0xffffffff)) ||| (g3 &&& mask))
    (eq4 : q4 = (k4 &&& (mask ^^^ 0xffffffff)) ||| (g4 &&& mask)) :
    q0 < 2^26 ∧ q1 < 2^26 ∧ q2 < 2^26 ∧ q3 < 2^26 ∧ q4 < 2^26 ∧
    q0 + 2^26 * q1 + 2^52 * q2 + 2^78 * q3 + 2^104 * q4
      = (k0 + 2^26 * k1 + 2^52 * k2 + 2^78 * k3 + 2^104 * k4) % (2^130 - 5) := by
  have hg4 : g4 < 2^32 := by rw [eg4]; exact Nat.mod_lt _ (by decide)
  have hb : g4 >>> (32 - 1) = 0 ∨ g4 >>> (32 - 1) = 1 := by
    simp only [Nat.shiftRight_eq_div_pow]; omega
  have mc := mask_cases _ hb
  rw [← em] at mc
  -- name the carries of the `g` chain and strip the vacuous `% 2^32`
  simp only [Nat.shiftRight_eq_div_pow, Nat.shiftLeft_eq, and_mask26] at eg0 eg1 eg2 eg3 eg4 mc
  have a0 : (k0 + 5) % 2^32 = k0 + 5 := by omega
  rw [a0] at eg0 eg1 eg2 eg3 eg4
  obtain ⟨c0, hc0⟩ : ∃ c0, c0 = (k0 + 5) / 2^26 := ⟨_, rfl⟩
  rw [← hc0] at eg1 eg2 eg3 eg4
  have b0 : c0 ≤ 1 := by omega
  have a1 : (k1 + c0) % 2^32 = k1 + c0 := by omega
  rw [a1] at eg1 eg2 eg3 eg4
  obtain ⟨c1, hc1⟩ : ∃ c1, c1 = (k1 + c0) / 2^26 := ⟨_, rfl⟩
  rw [← hc1] at eg2 eg3 eg4
  have b1 : c1 ≤ 1 := by omega
  have a2 : (k2 + c1) % 2^32 = k2 + c1 := by omega
  rw [a2] at eg2 eg3 eg4
  obtain ⟨c2, hc2⟩ : ∃ c2, c2 = (k2 + c1) / 2^26 := ⟨_, rfl⟩
  rw [← hc2] at eg3 eg4
  have b2 : c2 ≤ 1 := by omega
  have a3 : (k3 + c2) % 2^32 = k3 + c2 := by omega
  rw [a3] at eg3 eg4
  obtain ⟨c3, hc3⟩ : ∃ c3, c3 = (k3 + c2) / 2^26 := ⟨_, rfl⟩
  rw [← hc3] at eg4
  have b3 : c3 ≤ 1 := by omega
  have a4 : (k4 + c3) % 2^32 = k4 + c3 := by omega
  rw [a4] at eg4
  have hsum : g0 + 2^26 * g1 + 2^52 * g2 + 2^78 * g3 + 2^104 * (k4 + c3)
      = (k0 + 2^26 * k1 + 2^52 * k2 + 2^78 * k3 + 2^104 * k4) + 5 := by omega
  have hK : k0 + 2^26 * k1 + 2^52 * k2 + 2^78 * k3 + 2^104 * k4 < 2^130 := by omega
  have hgb : g0 < 2^26 ∧ g1 < 2^26 ∧ g2 < 2^26 ∧ g3 < 2^26 := by omega
  generalize k0 + 2^26 * k1 + 2^52 * k2 + 2^78 * k3 + 2^104 * k4 = K at hsum hK ⊢
  rcases mc with ⟨hb0, hm, hn⟩ | ⟨hb1, hm, hn⟩
  · -- no borrow: h ≥ p, take g
    rw [hn, hm] at eq0 eq1 eq2 eq3 eq4
    simp only [Nat.and_zero, Nat.zero_or, and_mask32] at eq0 eq1 eq2 eq3 eq4
    have hge : k4 + c3 ≥ 2^26 := by omega
    have hg4' : g4 = k4 + c3 - 2^26 := by omega
    have hKp : K % (2^130 - 5) = K - (2^130 - 5) := by omega
    rw [hKp]
    omega
  · -- borrow: h < p, keep h
    rw [hn, hm] at eq0 eq1 eq2 eq3 eq4
    simp only [Nat.and_zero, Nat.or_zero, and_mask32] at eq0 eq1 eq2 eq3 eq4
    have hlt : k4 + c3 < 2^26 := by omega
    have hKp : K % (2^130 - 5) = K := by omega
    rw [hKp]
    omega

/-- `a | (b << k)` on u32 with `a < 2^k` is an addition -/
theorem or_shl (a b k : Nat) (hk : k ≤ 32) (ha : a < 2 ^ k) :
    a ||| ((b <<< k) % 2 ^ 32) = a + 2 ^ k * (b % 2 ^ (32 - k)) := by
  have h32 : (2:Nat) ^ 32 = 2 ^ k * 2 ^ (32 - k) := by rw [← Nat.pow_add]; congr 1; omega
  rw [Nat.shiftLeft_eq, Nat.mul_comm b, h32, Nat.mul_mod_mul_left, Nat.or_comm,
    ← Nat.two_pow_add_eq_or_of_lt ha, Nat.add_comm]

/-- `// h = h % (2^128)` -/
theorem pack_rel (q0 q1 q2 q3 q4 w0 w1 w2 w3 : Nat)
    (i0 : q0 < 2^26) (i1 : q1 < 2^26) (i2 : q2 < 2^26) (i3 : q3 < 2^26) (i4 : q4 < 2^26)
    (e0 : w0 = (q0 ||| ((q1 <<< 26) % 2^32)) &&& 0xffffffff)
    (e1 : w1 = ((q1 >>> 6) ||| ((q2 <<< 20) % 2^32)) &&& 0xffffffff)
    (e2 : w2 = ((q2 >>> 12) ||| ((q3 <<< 14) % 2^32)) &&& 0xffffffff)
    (e3 : w3 = ((q3 >>> 18) ||| ((q4 <<< 8) % 2^32)) &&& 0xffffffff) :
    w0 < 2^32 ∧ w1 < 2^32 ∧ w2 < 2^32 ∧ w3 < 2^32 ∧
    w0 + 2^32 * w1 + 2^64 * w2 + 2^96 * w3 = (q0 + 2^26 * q1 + 2^52 * q2 + 2^78 * q3 + 2^104 * q4) % 2^128 := by
  rw [or_shl q0 q1 26 (by decide) i0] at e0
  rw [or_shl (q1 >>> 6) q2 20 (by decide) (by simp only [Nat.shiftRight_eq_div_pow]; omega)] at e1
  rw [or_shl (q2 >>> 12) q3 14 (by decide) (by simp only [Nat.shiftRight_eq_div_pow]; omega)] at e2
  rw [or_shl (q3 >>> 18) q4 8 (by decide) (by simp only [Nat.shiftRight_eq_div_pow]; omega)] at e3
  simp only [Nat.shiftRight_eq_div_pow, and_mask32] at e0 e1 e2 e3
  omega

/-- `// h = mac = (h + pad) % (2^128)` -/
theorem addpad_rel (w0 w1 w2 w3 p0 p1 p2 p3 f0 f1 f2 f3 : Nat)
    (i0 : w0 < 2^32) (i1 : w1 < 2^32) (i2 : w2 < 2^32) (i3 : w3 < 2^32)
    (j0 : p0 < 2^32) (j1 : p1 < 2^32) (j2 : p2 < 2^32) (j3 : p3 < 2^32)
    (e0 : f0 = w0 + p0) (e1 : f1 = w1 + p1 + (f0 >>> 32)) (e2 : f2 = w2 + p2 + (f1 >>> 32))
    (e3 : f3 = w3 + p3 + (f2 >>> 32)) :
    f0 < 2^64 ∧ f1 < 2^64 ∧ f2 < 2^64 ∧ f3 < 2^64 ∧
    f0 % 2^32 + 2^32 * (f1 % 2^32) + 2^64 * (f2 % 2^32) + 2^96 * (f3 % 2^32)
      = ((w0 + 2^32 * w1 + 2^64 * w2 + 2^96 * w3) + (p0 + 2^32 * p1 + 2^64 * p2 + 2^96 * p3)) % 2^128 := by
  simp only [Nat.shiftRight_eq_div_pow] at *
  omega

/-- the pad words are u32 -/
def PadInv (pad : L4) : Prop := pad.w0 < 2^32 ∧ pad.w1 < 2^32 ∧ pad.w2 < 2^32 ∧ pad.w3 < 2^32

instance (pad : L4) : Decidable (PadInv pad) := by unfold PadInv; infer_instance

/-- **finish arithmetic** (C05 c, C20): for every accumulator satisfying the invariant — including values in
    [p, 2^130) and beyond — no checked operation overflows and the four output words are
    `((val h mod p) + pad) mod 2^128`. -/
theorem finishArith_spec (h : L5) (pad : L4) (hh : Inv h) (hp : PadInv pad) :
    (finishArith h pad).Ok ∧
    (finishArith h pad).out.w0 < 2^32 ∧ (finishArith h pad).out.w1 < 2^32 ∧
    (finishArith h pad).out.w2 < 2^32 ∧ (finishArith h pad).out.w3 < 2^32 ∧
    val4 (finishArith h pad).out = (val h % Spec.Poly1305.p + val4 pad) % 2^128 := by
  obtain ⟨i0, i1, i2, i3, i4⟩ := hh
  obtain ⟨j0, j1, j2, j3⟩ := hp
  have fc := fullcarry_rel h.l0 h.l1 h.l2 h.l3 h.l4 (finishArith h pad).h2a (finishArith h pad).h3a
    (finishArith h pad).h4a (finishArith h pad).cx5 (finishArith h pad).h0a (finishArith h pad).h1b
    (finishArith h pad).k.l0 (finishArith h pad).k.l2 (finishArith h pad).k.l3 (finishArith h pad).k.l4
    i0 i1 i2 i3 i4 rfl rfl rfl rfl rfl rfl rfl rfl rfl rfl
  have ek1 : (finishArith h pad).k.l1 = (finishArith h pad).h1b := rfl
  obtain ⟨c1, c2, c3, c4, c5, c6, k0, k1, k2, k3, k4, hv⟩ := fc
  rw [← ek1] at k1 hv
  have sr := select_rel (finishArith h pad).k.l0 (finishArith h pad).k.l1 (finishArith h pad).k.l2
    (finishArith h pad).k.l3 (finishArith h pad).k.l4
    (finishArith h pad).g.l0 (finishArith h pad).g.l1 (finishArith h pad).g.l2 (finishArith h pad).g.l3
    (finishArith h pad).g.l4 (finishArith h pad).mask
    (finishArith h pad).q.l0 (finishArith h pad).q.l1 (finishArith h pad).q.l2 (finishArith h pad).q.l3
    (finishArith h pad).q.l4 k0 k1 k2 k3 k4 rfl rfl rfl rfl rfl rfl rfl rfl rfl rfl rfl
  obtain ⟨q0, q1, q2, q3, q4, hq⟩ := sr
  have pr := pack_rel (finishArith h pad).q.l0 (finishArith h pad).q.l1 (finishArith h pad).q.l2
    (finishArith h pad).q.l3 (finishArith h pad).q.l4
    (finishArith h pad).w.w0 (finishArith h pad).w.w1 (finishArith h pad).w.w2 (finishArith h pad).w.w3
    q0 q1 q2 q3 q4 rfl rfl rfl rfl
  obtain ⟨w0, w1, w2, w3, hw⟩ := pr
  have ar := addpad_rel (finishArith h pad).w.w0 (finishArith h pad).w.w1 (finishArith h pad).w.w2
    (finishArith h pad).w.w3 pad.w0 pad.w1 pad.w2 pad.w3
    (finishArith h pad).f0 (finishArith h pad).f1 (finishArith h pad).f2 (finishArith h pad).f3
    w0 w1 w2 w3 j0 j1 j2 j3 rfl rfl rfl rfl
  obtain ⟨g0, g1, g2, g3, ha⟩ := ar
  have eo0 : (finishArith h pad).out.w0 = (finishArith h pad).f0 % 2^32 := rfl
  have eo1 : (finishArith h pad).out.w1 = (finishArith h pad).f1 % 2^32 := rfl
  have eo2 : (finishArith h pad).out.w2 = (finishArith h pad).f2 % 2^32 := rfl
  have eo3 : (finishArith h pad).out.w3 = (finishArith h pad).f3 % 2^32 := rfl
  refine ⟨⟨c1, c2, c3, c4, c5, c6, g0, g1, g2, g3⟩, ?_, ?_, ?_, ?_, ?_⟩
  · rw [eo0]; exact Nat.mod_lt _ (by decide)
  · rw [eo1]; exact Nat.mod_lt _ (by decide)
  · rw [eo2]; exact Nat.mod_lt _ (by decide)
  · rw [eo3]; exact Nat.mod_lt _ (by decide)
  · simp only [val4, val, eo0, eo1, eo2, eo3]
    rw [ha, hw, hq]
    -- (val k) % p = (val h) % p, and the inner `% 2^128` is absorbed
    have hkh : ((finishArith h pad).k.l0 + 2^26 * (finishArith h pad).k.l1 + 2^52 * (finishArith h pad).k.l2
        + 2^78 * (finishArith h pad).k.l3 + 2^104 * (finishArith h pad).k.l4) % (2^130 - 5)
        = (h.l0 + 2^26 * h.l1 + 2^52 * h.l2 + 2^78 * h.l3 + 2^104 * h.l4) % (2^130 - 5) := by
      rw [← hv, Nat.add_mul_mod_self_left]
    rw [hkh]
    simp only [Spec.Poly1305.p]
    omega

end Cx.Proofs.Poly1305
