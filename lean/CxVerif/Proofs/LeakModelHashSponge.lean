/-
  Proofs.LeakModelHashSponge — (l) SHA-3 / Keccak: erasure and non-interference of the instrumented sponge
  (`process`, `finalize` with `pad_len` / `set_domain_sep` / `set_pad`, `output`) and of the contexts; the `CtxLeak`
  instance of `sha3::Context<bits>` / `keccak::Context<bits>` and the `DigestLeak` instances of the eight legacy
  wrappers of src/sha3.rs.

  Public shadow of an engine: the size of the state array, the two phase flags and the position `offset` in the block.
  The 200 state bytes are not in it.  The non-interference statements hold for ALL engine states (no well-formedness
  premise): every refusal is decided by the public shadow and the argument lengths, which is proved by a small
  relational logic `ORel` for the `Option` monad of the plain model ("length-parametricity" of `set_pad`, `xor_in`, …).
-/
import CxVerif.Proofs.LeakModelHash
import CxVerif.Proofs.KeccakF
set_option linter.unusedSimpArgs false
set_option linter.unusedVariables false
namespace Cx.Proofs.LeakModel
open Cx Cx.Impl Cx.Impl.LeakModel Cx.Impl.Digest Cx.Impl.Sha3 Cx.Impl.LeakModel.Sha3L

/-- same length -/
def LenEq (a a' : Bytes) : Prop := a.length = a'.length

/-! ### the byte-level helpers of sha3.rs are length-parametric -/

theorem idx_rel {α : Type} (a a' : List α) (i : Nat) (h : a.length = a'.length) :
    ORel (fun _ _ => True) (idx a i) (idx a' i) := by
  refine ⟨?_, fun _ _ _ _ => trivial⟩
  unfold idx
  by_cases hi : i < a.length
  · rw [List.getElem?_eq_getElem hi, List.getElem?_eq_getElem (h ▸ hi)]; rfl
  · rw [List.getElem?_eq_none (by omega), List.getElem?_eq_none (by omega)]

theorem upd_rel (a a' : Bytes) (i : Nat) (v v' : UInt8) (h : a.length = a'.length) :
    ORel LenEq (upd a i v) (upd a' i v') := by
  unfold upd
  rw [h]
  refine ORel.ite Iff.rfl (ORel.pure ?_) ORel.none
  unfold LenEq
  rw [List.length_set, List.length_set, h]

theorem clear_bits_rel (b b' : Bytes) (s lo : Nat) (h : LenEq b b') :
    ORel LenEq (clear_bits b s lo) (clear_bits b' s lo) := by
  unfold clear_bits
  refine ORel.foldlM _ (fun a a' i ha => ?_) b b' h
  exact ORel.bind (idx_rel a a' s ha) (fun x x' _ => upd_rel a a' s _ _ ha)

theorem set_domain_sep_rel (n : Nat) (b b' : Bytes) (h : LenEq b b') :
    ORel LenEq (set_domain_sep n b) (set_domain_sep n b') := by
  unfold set_domain_sep
  have he : b.isEmpty = b'.isEmpty := by
    cases b <;> cases b' <;> simp_all [LenEq]
  rw [he]
  refine ORel.ite Iff.rfl ORel.none (ORel.ite Iff.rfl ?_ ?_)
  · refine ORel.bind (idx_rel b b' 0 h) (fun x x' _ => ORel.bind (upd_rel b b' 0 _ _ h) (fun c c' hc => ?_))
    exact ORel.bind (idx_rel c c' 0 hc) (fun y y' _ => upd_rel c c' 0 _ _ hc)
  · exact ORel.bind (idx_rel b b' 0 h) (fun x x' _ => upd_rel b b' 0 _ _ h)

theorem set_pad_rel (ds : Nat) (b b' : Bytes) (h : LenEq b b') : ORel LenEq (set_pad ds b) (set_pad ds b') := by
  unfold set_pad
  have hl : b.length = b'.length := h
  rw [hl]
  refine ORel.bind (idx_rel b b' _ h) (fun x x' _ => ORel.bind (upd_rel b b' _ _ _ h) (fun c c' hc => ?_))
  refine ORel.bind (clear_bits_rel c c' _ _ hc) (fun d d' hd => ?_)
  have hdl : d.length = d'.length := hd
  rw [hdl]
  refine ORel.ite Iff.rfl ORel.none (ORel.ite Iff.rfl ORel.none ?_)
  have hz : LenEq (d.take (ds / 8 + 1) ++ zeros (d'.length - (ds / 8 + 1)))
      (d'.take (ds / 8 + 1) ++ zeros (d'.length - (ds / 8 + 1))) := by
    unfold LenEq
    simp only [List.length_append, List.length_take, hdl]
  exact ORel.bind (idx_rel _ _ _ hz) (fun y y' _ => upd_rel _ _ _ _ _ hz)

theorem xor_in_rel : ∀ (st st' : Bytes) (off : Nat) (d d' : Bytes), st.length = st'.length → d.length = d'.length →
    ORel LenEq (xor_in st off d) (xor_in st' off d') := by
  intro st
  induction st with
  | nil =>
    intro st' off d d' hs hd
    cases st' with
    | cons b t => simp at hs
    | nil =>
      cases d with
      | nil =>
        cases d' with
        | nil => simp only [xor_in]; exact ORel.pure rfl
        | cons x xs => simp at hd
      | cons x xs =>
        cases d' with
        | nil => simp at hd
        | cons x' xs' => simp only [xor_in]; exact ORel.none
  | cons b t ih =>
    intro st' off d d' hs hd
    cases st' with
    | nil => simp at hs
    | cons b' t' =>
      have ht : t.length = t'.length := by simpa using hs
      cases d with
      | nil =>
        cases d' with
        | nil => simp only [xor_in]; exact ORel.pure hs
        | cons x xs => simp at hd
      | cons x xs =>
        cases d' with
        | nil => simp at hd
        | cons x' xs' =>
          have hx : xs.length = xs'.length := by simpa using hd
          cases off with
          | zero =>
            simp only [xor_in]
            refine ORel.map (ih t' 0 xs xs' ht hx) (fun a a' ha => ?_)
            show (_ :: a).length = (_ :: a').length
            simp only [List.length_cons]; rw [show a.length = a'.length from ha]
          | succ o =>
            simp only [xor_in]
            refine ORel.map (ih t' o (x :: xs) (x' :: xs') ht hd) (fun a a' ha => ?_)
            show (_ :: a).length = (_ :: a').length
            simp only [List.length_cons]; rw [show a.length = a'.length from ha]

theorem keccak_f_rel (st st' : Bytes) (h : st.length = st'.length) : ORel LenEq (keccak_f st) (keccak_f st') := by
  by_cases h2 : st.length = 200
  · rw [Cx.Proofs.Keccak.keccak_f_eq st h2, Cx.Proofs.Keccak.keccak_f_eq st' (h ▸ h2)]
    refine ORel.pure ?_
    show (_ : Bytes).length = (_ : Bytes).length
    rw [Cx.Proofs.Keccak.keccakF_length, Cx.Proofs.Keccak.keccakF_length]
  · have e : keccak_f st = Option.none := by
      unfold keccak_f read_u64v_le
      rw [if_neg (by omega)]; rfl
    have e' : keccak_f st' = Option.none := by
      unfold keccak_f read_u64v_le
      rw [if_neg (by omega)]; rfl
    rw [e, e']; exact ORel.none

/-! ### `process` -/

theorem xor_inL_val (st : Bytes) (off : Nat) (d : Bytes) : (xor_inL st off d).val = xor_in st off d := by
  unfold xor_inL
  rw [LO.emit_bind_val, LO.emit_bind_val]; exact LO.lift_val _

theorem xor_inL_ni (st st' : Bytes) (off : Nat) (d d' : Bytes) (hs : st.length = st'.length) (hd : d.length = d'.length) :
    NI (xor_inL st off d) (xor_inL st' off d') LenEq := by
  unfold xor_inL
  rw [hd]
  exact NI.bind (NI.emit _) (fun _ _ _ => NI.bind (NI.emit _) (fun _ _ _ => NI.ofORel (xor_in_rel st st' off d d' hs hd)))

theorem absorb_loopL_val (r : Nat) (n : Nat) : ∀ (state : Bytes) (offset : Nat) (data : Bytes), data.length ≤ n →
    (absorb_loopL r state offset data).val = absorb_loop r state offset data := by
  induction n with
  | zero =>
    intro state offset data h
    have hd : data = [] := List.eq_nil_of_length_eq_zero (by omega)
    unfold absorb_loopL absorb_loop
    rw [dif_pos hd, dif_pos hd, LO.emit_bind_val]; exact LO.pure_val _
  | succ n ih =>
    intro state offset data h
    unfold absorb_loopL absorb_loop
    by_cases hd : data = []
    · rw [dif_pos hd, dif_pos hd, LO.emit_bind_val]; exact LO.pure_val _
    · rw [dif_neg hd, dif_neg hd]
      by_cases hr : offset < r
      · rw [dif_pos hr, dif_pos hr, LO.emit_bind_val]
        dsimp only
        lo_bind (xor_inL_val _ _ _)
        rw [LO.emit_bind_val]
        by_cases hf : offset + min (r - offset) data.length = r
        · rw [if_pos hf, if_pos hf]
          lo_bind (LO.lift_val _)
          refine ih _ _ _ ?_
          have : 0 < data.length := List.length_pos_iff.mpr hd
          simp only [List.length_drop]
          omega
        · rw [if_neg hf, if_neg hf]; exact LO.pure_val _
      · rw [dif_neg hr, dif_neg hr]; exact LO.lift_val _

/-- the state after the absorb loop: array size and position are public -/
def LowP (p p' : Bytes × Nat) : Prop := p.1.length = p'.1.length ∧ p.2 = p'.2

theorem absorb_loopL_ni (r : Nat) (n : Nat) : ∀ (state state' : Bytes) (offset : Nat) (data data' : Bytes),
    data.length ≤ n → state.length = state'.length → data.length = data'.length →
    NI (absorb_loopL r state offset data) (absorb_loopL r state' offset data') LowP := by
  induction n with
  | zero =>
    intro state state' offset data data' h hs hd
    have h1 : data = [] := List.eq_nil_of_length_eq_zero (by omega)
    have h2 : data' = [] := List.eq_nil_of_length_eq_zero (by omega)
    unfold absorb_loopL
    rw [dif_pos h1, dif_pos h2]
    exact NI.bind (NI.emit _) (fun _ _ _ => NI.pure _ _ ⟨hs, rfl⟩)
  | succ n ih =>
    intro state state' offset data data' h hs hd
    unfold absorb_loopL
    have hnil : data = [] ↔ data' = [] := by
      constructor
      · intro e; apply List.eq_nil_of_length_eq_zero; rw [← hd, e]; rfl
      · intro e; apply List.eq_nil_of_length_eq_zero; rw [hd, e]; rfl
    refine NI.dite hnil (fun _ _ => NI.bind (NI.emit _) (fun _ _ _ => NI.pure _ _ ⟨hs, rfl⟩)) (fun hne _ => ?_)
    refine NI.dite Iff.rfl (fun _ _ => ?_) (fun _ _ => NI.panic)
    rw [← hd]
    refine NI.bind (NI.emit _) (fun _ _ _ => ?_)
    refine NI.bind (xor_inL_ni state state' offset _ _ hs (by simp only [List.length_take, hd])) (fun s1 s1' h1 => ?_)
    refine NI.bind (NI.emit _) (fun _ _ _ => NI.ite Iff.rfl ?_ (NI.pure _ _ ⟨h1, rfl⟩))
    refine NI.bind (NI.ofORel (keccak_f_rel s1 s1' h1)) (fun s2 s2' h2 => ?_)
    refine ih s2 s2' 0 _ _ ?_ h2 (by simp only [List.length_drop, hd])
    have : 0 < data.length := List.length_pos_iff.mpr hne
    simp only [List.length_drop]
    omega

/-- two engines are indistinguishable: same array size, same phase flags, same position in the block -/
def LowS (e e' : Engine) : Prop :=
  e.state.length = e'.state.length ∧ e.can_absorb = e'.can_absorb ∧ e.can_squeeze = e'.can_squeeze ∧ e.offset = e'.offset

theorem Engine.processL_val (dl : Nat) (e : Engine) (data : Bytes) : (Engine.processL dl e data).val = e.process dl data := by
  unfold Engine.processL Engine.process
  rw [LO.emit_bind_val]
  by_cases h : (!e.can_absorb) = true
  · rw [if_pos h, if_pos h]; exact LO.lift_val _
  · rw [if_neg h, if_neg h]
    refine LO.erase_bind (LO.lift_val _) (fun r => ?_)
    rw [LO.emit_bind_val]
    by_cases h2 : ¬ e.offset < r
    · rw [if_pos h2, if_pos h2]; exact LO.lift_val _
    · rw [if_neg h2, if_neg h2]
      refine LO.erase_bind (absorb_loopL_val r _ _ _ _ (Nat.le_refl _)) (fun p => ?_)
      obtain ⟨st, off⟩ := p
      exact LO.pure_val _

theorem Engine.processL_ni (dl : Nat) (e e' : Engine) (d d' : Bytes) (he : LowS e e') (hd : d.length = d'.length) :
    NI (Engine.processL dl e d) (Engine.processL dl e' d') LowS := by
  unfold Engine.processL
  obtain ⟨h1, h2, h3, h4⟩ := he
  rw [← h2, ← h4]
  refine NI.bind (NI.emit _) (fun _ _ _ => NI.guard ?_)
  refine NI.bind (NI.ofORel (ORel.refl_eq _)) (fun r r' hr => ?_)
  subst hr
  refine NI.bind (NI.emit _) (fun _ _ _ => NI.guard ?_)
  refine NI.bind (absorb_loopL_ni r _ _ _ _ _ _ (Nat.le_refl _) h1 hd) (fun p p' hp => ?_)
  exact NI.pure _ _ ⟨hp.1, rfl, h3, hp.2⟩

/-! ### `finalize` -/

theorem pad_lenL_val (ds o r : Nat) : (pad_lenL ds o r).val = pad_len ds o r := by
  unfold pad_lenL
  rw [LO.emit_bind_val]; exact LO.lift_val _

theorem set_domain_sepL_val (n : Nat) (b : Bytes) : (set_domain_sepL n b).val = set_domain_sep n b := by
  unfold set_domain_sepL
  rw [LO.emit_bind_val]; exact LO.lift_val _

theorem set_padL_val (ds : Nat) (b : Bytes) : (set_padL ds b).val = set_pad ds b := by
  unfold set_padL
  rw [LO.emit_bind_val, LO.emit_bind_val, LO.emit_bind_val]; exact LO.lift_val _

theorem set_domain_sepL_ni (n : Nat) (b b' : Bytes) (h : LenEq b b') :
    NI (set_domain_sepL n b) (set_domain_sepL n b') LenEq := by
  unfold set_domain_sepL
  have he : b.isEmpty = b'.isEmpty := by
    cases b <;> cases b' <;> simp_all [LenEq]
  rw [he]
  exact NI.bind (NI.emit _) (fun _ _ _ => NI.ofORel (set_domain_sep_rel n b b' h))

theorem set_padL_ni (ds : Nat) (b b' : Bytes) (h : LenEq b b') : NI (set_padL ds b) (set_padL ds b') LenEq := by
  unfold set_padL
  rw [show b.length = b'.length from h]
  exact NI.bind (NI.emit _) (fun _ _ _ => NI.bind (NI.emit _) (fun _ _ _ => NI.bind (NI.emit _) (fun _ _ _ =>
    NI.ofORel (set_pad_rel ds b b' h))))

theorem Engine.finalizeL_val (dl ds : Nat) (e : Engine) : (Engine.finalizeL dl ds e).val = e.finalize dl ds := by
  unfold Engine.finalizeL Engine.finalize
  rw [LO.emit_bind_val]
  by_cases h : (!e.can_absorb) = true
  · rw [if_pos h, if_pos h]; exact LO.lift_val _
  · rw [if_neg h, if_neg h]
    refine LO.erase_bind (LO.lift_val _) (fun r => ?_)
    refine LO.erase_bind (LO.lift_val _) (fun o8 => ?_)
    refine LO.erase_bind (LO.lift_val _) (fun r8 => ?_)
    refine LO.erase_bind (pad_lenL_val _ _ _) (fun p_len => ?_)
    rw [LO.emit_bind_val]
    dsimp only
    by_cases hds : (ds != 0) = true
    · rw [if_pos hds, if_pos hds]
      refine LO.erase_bind (set_domain_sepL_val _ _) (fun p => ?_)
      refine LO.erase_bind (set_padL_val _ _) (fun p2 => ?_)
      refine LO.erase_bind (Engine.processL_val _ _ _) (fun e2 => ?_)
      exact LO.pure_val _
    · rw [if_neg hds, if_neg hds]
      refine LO.erase_bind (LO.pure_val _) (fun p => ?_)
      refine LO.erase_bind (set_padL_val _ _) (fun p2 => ?_)
      refine LO.erase_bind (Engine.processL_val _ _ _) (fun e2 => ?_)
      exact LO.pure_val _

theorem zeros_lenEq (n : Nat) : LenEq (zeros n) (zeros n) := rfl

theorem Engine.finalizeL_ni (dl ds : Nat) (e e' : Engine) (he : LowS e e') :
    NI (Engine.finalizeL dl ds e) (Engine.finalizeL dl ds e') LowS := by
  unfold Engine.finalizeL
  have he0 := he
  obtain ⟨h1, h2, h3, h4⟩ := he
  rw [← h2, ← h4]
  refine NI.bind (NI.emit _) (fun _ _ _ => NI.guard ?_)
  refine NI.bind (NI.ofORel (ORel.refl_eq _)) (fun r r' hr => ?_)
  subst hr
  refine NI.bind (NI.ofORel (ORel.refl_eq _)) (fun o8 o8' ho => ?_)
  subst ho
  refine NI.bind (NI.ofORel (ORel.refl_eq _)) (fun r8 r8' hr8 => ?_)
  subst hr8
  refine NI.bind (R := Eq) ?_ (fun pl pl' hpl => ?_)
  · unfold pad_lenL
    exact NI.bind (NI.emit _) (fun _ _ _ => NI.ofORel (ORel.refl_eq _))
  subst hpl
  refine NI.bind (NI.emit _) (fun _ _ _ => ?_)
  refine NI.bind (R := LenEq) (NI.ite Iff.rfl (set_domain_sepL_ni _ _ _ (zeros_lenEq _)) (NI.pure _ _ (zeros_lenEq _)))
    (fun p p' hp => ?_)
  refine NI.bind (set_padL_ni ds p p' hp) (fun q q' hq => ?_)
  refine NI.bind (Engine.processL_ni dl e e' q q' he0 hq) (fun f f' hf => ?_)
  exact NI.pure _ _ ⟨hf.1, rfl, hf.2.2.1, hf.2.2.2⟩

/-! ### `output` -/

theorem squeeze_loopL_val (dl r : Nat) (n : Nat) : ∀ (e : Engine) (in_len in_pos : Nat) (out : Bytes),
    in_len - in_pos ≤ n → (squeeze_loopL dl r e in_len in_pos out).val = squeeze_loop dl r e in_len in_pos out := by
  induction n with
  | zero =>
    intro e in_len in_pos out h
    have hlt : ¬ in_pos < in_len := by omega
    unfold squeeze_loopL squeeze_loop
    rw [dif_neg hlt, dif_neg hlt, LO.emit_bind_val]; exact LO.pure_val _
  | succ n ih =>
    intro e in_len in_pos out h
    unfold squeeze_loopL squeeze_loop
    by_cases hlt : in_pos < in_len
    · rw [dif_pos hlt, dif_pos hlt, LO.emit_bind_val]
      by_cases hr0 : r = 0
      · rw [dif_pos hr0, dif_pos hr0]; exact LO.lift_val _
      · rw [dif_neg hr0, dif_neg hr0]
        lo_bind (LO.lift_val _)
        rename_i nread
        rw [LO.emit_bind_val, LO.emit_bind_val, LO.emit_bind_val]
        by_cases hb : e.state.length < nread + e.offset % r ∨ out.length < nread + in_pos
        · rw [if_pos hb, if_pos hb]; exact LO.lift_val _
        · rw [if_neg hb, if_neg hb, LO.emit_bind_val]
          try dsimp only
          by_cases hfull : e.offset % r + nread = r
          · rw [dif_pos hfull, dif_pos hfull]
            lo_bind (LO.lift_val _)
            refine ih _ _ _ _ ?_
            have : e.offset % r < r := Nat.mod_lt _ (Nat.pos_of_ne_zero hr0)
            omega
          · rw [dif_neg hfull, dif_neg hfull]; exact LO.pure_val _
    · rw [dif_neg hlt, dif_neg hlt, LO.emit_bind_val]; exact LO.pure_val _

/-- engine and output buffer after the squeeze loop -/
def LowO (p p' : Engine × Bytes) : Prop := LowS p.1 p'.1 ∧ p.2.length = p'.2.length

theorem squeeze_loopL_ni (dl r : Nat) (n : Nat) : ∀ (e e' : Engine) (in_len in_pos : Nat) (out out' : Bytes),
    in_len - in_pos ≤ n → LowS e e' → out.length = out'.length →
    NI (squeeze_loopL dl r e in_len in_pos out) (squeeze_loopL dl r e' in_len in_pos out') LowO := by
  induction n with
  | zero =>
    intro e e' in_len in_pos out out' h he ho
    have hlt : ¬ in_pos < in_len := by omega
    unfold squeeze_loopL
    rw [dif_neg hlt, dif_neg hlt]
    exact NI.bind (NI.emit _) (fun _ _ _ => NI.pure _ _ ⟨he, ho⟩)
  | succ n ih =>
    intro e e' in_len in_pos out out' h he ho
    unfold squeeze_loopL
    refine NI.dite Iff.rfl (fun hlt _ => ?_) (fun _ _ => NI.bind (NI.emit _) (fun _ _ _ => NI.pure _ _ ⟨he, ho⟩))
    refine NI.bind (NI.emit _) (fun _ _ _ => NI.dite Iff.rfl (fun _ _ => NI.panic) (fun hr0 _ => ?_))
    obtain ⟨h1, h2, h3, h4⟩ := he
    rw [← h4, ← h1, ← ho]
    refine NI.bind (NI.ofORel (ORel.refl_eq _)) (fun nread nread' hn => ?_)
    subst hn
    refine NI.bind (NI.emit _) (fun _ _ _ => NI.bind (NI.emit _) (fun _ _ _ => NI.bind (NI.emit _) (fun _ _ _ => ?_)))
    refine NI.guard (NI.bind (NI.emit _) (fun _ _ _ => ?_))
    have hout : (out.take in_pos ++ (e.state.drop (e.offset % r)).take nread ++ out.drop (in_pos + nread)).length =
        (out'.take in_pos ++ (e'.state.drop (e.offset % r)).take nread ++ out'.drop (in_pos + nread)).length := by
      simp only [List.length_append, List.length_take, List.length_drop, h1, ho]
    refine NI.dite Iff.rfl (fun hfull _ => ?_) (fun _ _ => NI.pure _ _ ⟨⟨h1, h2, h3, rfl⟩, hout⟩)
    refine NI.bind (NI.ofORel (keccak_f_rel _ _ h1)) (fun st st' hst => ?_)
    refine ih _ _ _ _ _ _ ?_ ⟨hst, h2, h3, rfl⟩ hout
    have : e.offset % r < r := Nat.mod_lt _ (Nat.pos_of_ne_zero hr0)
    omega

theorem Engine.outputL_val (dl ds : Nat) (e : Engine) (n : Nat) : (Engine.outputL dl ds e n).val = e.output dl ds n := by
  unfold Engine.outputL Engine.output
  rw [LO.emit_bind_val]
  by_cases h : (!e.can_squeeze) = true
  · rw [if_pos h, if_pos h]; exact LO.lift_val _
  · rw [if_neg h, if_neg h, LO.emit_bind_val]
    have rest : ∀ e1 : Engine, (do
          let r ← LO.lift (rate dl)
          LO.emit (Event.branch (decide ¬if (dl != 0) = true then e1.offset < dl else e1.offset < r))
          if ¬if (dl != 0) = true then e1.offset < dl else e1.offset < r then LO.lift none
            else do
              LO.emit (Event.length n)
              let p ← squeeze_loopL dl r e1 n 0 (zeros n)
              LO.emit (Event.branch (dl != 0 && dl == p.fst.offset))
              pure (if (dl != 0 && dl == p.fst.offset) = true then { p.fst with can_squeeze := false } else p.fst,
                    p.snd) : LO (Engine × Bytes)).val =
        (do
          let r ← rate dl
          if ¬if (dl != 0) = true then e1.offset < dl else e1.offset < r then none
            else do
              let __x ← squeeze_loop dl r e1 n 0 (zeros n)
              match __x with
                | (e, out) =>
                  pure (if (dl != 0 && dl == e.offset) = true then { e with can_squeeze := false } else e, out)
          : Option (Engine × Bytes)) := by
      intro e1
      refine LO.erase_bind (LO.lift_val _) (fun r => ?_)
      rw [LO.emit_bind_val]
      by_cases h2 : ¬ (if (dl != 0) = true then e1.offset < dl else e1.offset < r)
      · rw [if_pos h2, if_pos h2]; exact LO.lift_val _
      · rw [if_neg h2, if_neg h2, LO.emit_bind_val]
        refine LO.erase_bind (squeeze_loopL_val dl r _ _ _ _ _ (Nat.le_refl _)) (fun p => ?_)
        obtain ⟨e2, out⟩ := p
        rw [LO.emit_bind_val]
        exact LO.pure_val _
    dsimp only
    by_cases ha : e.can_absorb = true
    · rw [if_pos ha, if_pos ha]
      exact LO.erase_bind (Engine.finalizeL_val _ _ _) rest
    · rw [if_neg ha, if_neg ha]
      exact LO.erase_bind (LO.pure_val _) rest

theorem Engine.outputL_ni (dl ds : Nat) (e e' : Engine) (n : Nat) (he : LowS e e') :
    NI (Engine.outputL dl ds e n) (Engine.outputL dl ds e' n) LowO := by
  unfold Engine.outputL
  have he0 := he
  obtain ⟨h1, h2, h3, h4⟩ := he
  rw [← h3, ← h2]
  refine NI.bind (NI.emit _) (fun _ _ _ => NI.guard (NI.bind (NI.emit _) (fun _ _ _ => ?_)))
  refine NI.bind (R := LowS) (NI.ite Iff.rfl (Engine.finalizeL_ni dl ds e e' he0) (NI.pure _ _ he0)) (fun f f' hf => ?_)
  refine NI.bind (NI.ofORel (ORel.refl_eq _)) (fun r r' hr => ?_)
  subst hr
  rw [← hf.2.2.2]
  refine NI.bind (NI.emit _) (fun _ _ _ => NI.guard (NI.bind (NI.emit _) (fun _ _ _ => ?_)))
  refine NI.bind (squeeze_loopL_ni dl r _ f f' n 0 _ _ (Nat.le_refl _) hf rfl) (fun p p' hp => ?_)
  obtain ⟨⟨g1, g2, g3, g4⟩, g5⟩ := hp
  rw [← g4]
  refine NI.bind (NI.emit _) (fun _ _ _ => NI.pure _ _ ⟨?_, g5⟩)
  by_cases hc : (dl != 0 && dl == p.1.offset) = true
  · rw [if_pos hc, if_pos hc]; exact ⟨g1, g2, rfl, g4⟩
  · rw [if_neg hc, if_neg hc]; exact ⟨g1, g2, g3, g4⟩

/-! ### the contexts -/

theorem Sha3L.finalize_resetL_val (dl ds : Nat) (c : Context) :
    (Context.finalize_resetL dl ds c).val = Context.finalize_reset dl ds c := by
  unfold Context.finalize_resetL Context.finalize_reset
  refine LO.erase_bind (Engine.outputL_val dl ds c dl) (fun p => ?_)
  obtain ⟨e, out⟩ := p
  exact LO.pure_val _

/-- the public shadow of a sponge context -/
def pubSha3 (c : Context) : Nat × Bool × Bool × Nat := (c.state.length, c.can_absorb, c.can_squeeze, c.offset)

theorem pubSha3_iff (c c' : Context) : pubSha3 c = pubSha3 c' ↔ LowS c c' := by
  unfold pubSha3 LowS
  constructor
  · intro h; simp only [Prod.mk.injEq] at h; exact h
  · intro h; rw [h.1, h.2.1, h.2.2.1, h.2.2.2]

theorem Sha3L.finalize_resetL_ni (dl ds : Nat) (c c' : Context) (hc : pubSha3 c = pubSha3 c') :
    NI (Context.finalize_resetL dl ds c) (Context.finalize_resetL dl ds c')
      (fun r r' => pubSha3 r.1 = pubSha3 r'.1 ∧ r.2.length = r'.2.length) := by
  unfold Context.finalize_resetL
  refine NI.bind (Engine.outputL_ni dl ds c c' dl ((pubSha3_iff c c').mp hc)) (fun p p' hp => NI.pure _ _ ⟨?_, hp.2⟩)
  refine (pubSha3_iff _ _).mpr ⟨?_, rfl, rfl, rfl⟩
  show (zeros _).length = (zeros _).length
  simp only [zeros, List.length_replicate, hp.1.1]

/-- **`CtxLeak` for `sha3::Context<bits>` (DSLEN = 2) and `keccak::Context<bits>` (DSLEN = 0)**, every digest length -/
def sha3CtxLeak (dl ds id : Nat) : CtxLeak (sha3Ctx dl ds id) (sha3CtxL dl ds) where
  π := Nat × Bool × Bool × Nat
  pub := pubSha3
  update_val c b := Engine.processL_val dl c b
  reset_val _ := LO.pure_val _
  finalize_val := Sha3L.finalize_resetL_val dl ds
  update_ni c c' b b' hc hb :=
    (Engine.processL_ni dl c c' b b' ((pubSha3_iff c c').mp hc) hb).mono (fun e e' he => (pubSha3_iff e e').mpr he)
  reset_ni c c' hc := by
    refine NI.pure _ _ ((pubSha3_iff _ _).mpr ⟨?_, rfl, rfl, rfl⟩)
    show (zeros _).length = (zeros _).length
    simp only [zeros, List.length_replicate, ((pubSha3_iff c c').mp hc).1]
  finalize_ni := Sha3L.finalize_resetL_ni dl ds

/-! ### the eight legacy wrappers of src/sha3.rs satisfy `DigestLeak` -/

def sha3_224Leak : DigestLeak (legacyDigest sha3_224Ctx) (legacyDigestL sha3_224CtxL) := legacyLeak (sha3CtxLeak 28 2 7)
def sha3_256Leak : DigestLeak (legacyDigest sha3_256Ctx) (legacyDigestL sha3_256CtxL) := legacyLeak (sha3CtxLeak 32 2 8)
def sha3_384Leak : DigestLeak (legacyDigest sha3_384Ctx) (legacyDigestL sha3_384CtxL) := legacyLeak (sha3CtxLeak 48 2 9)
def sha3_512Leak : DigestLeak (legacyDigest sha3_512Ctx) (legacyDigestL sha3_512CtxL) := legacyLeak (sha3CtxLeak 64 2 10)
def keccak224Leak : DigestLeak (legacyDigest keccak224Ctx) (legacyDigestL keccak224CtxL) := legacyLeak (sha3CtxLeak 28 0 11)
def keccak256Leak : DigestLeak (legacyDigest keccak256Ctx) (legacyDigestL keccak256CtxL) := legacyLeak (sha3CtxLeak 32 0 12)
def keccak384Leak : DigestLeak (legacyDigest keccak384Ctx) (legacyDigestL keccak384CtxL) := legacyLeak (sha3CtxLeak 48 0 13)
def keccak512Leak : DigestLeak (legacyDigest keccak512Ctx) (legacyDigestL keccak512CtxL) := legacyLeak (sha3CtxLeak 64 0 14)

end Cx.Proofs.LeakModel
