/-
  Proofs.SpongeHash — finalize / output / one-shot hash of the code = SPONGE of FIPS 202, for every message,
  for every instantiation `Engine<DIGESTLEN, DSLEN>` that satisfies `Variant` (all eight of the crate do).
-/
import CxVerif.Proofs.SpongeAbsorb
import CxVerif.Proofs.SpongePad
namespace Cx.Proofs.Sponge
open Cx Cx.Spec.Keccak Cx.Impl.Sha3 Cx.Proofs.Keccak

/-- an instantiation of the engine: DIGESTLEN = dl, DSLEN = ds, its rate r (bytes) and the FIPS 202 suffix bits.
    `DSLEN = 2` is SHA-3 (suffix 01), `DSLEN = 0` is Keccak (no suffix). -/
structure Variant (dl ds r : Nat) (suffix : List Bool) : Prop where
  hrate : rate dl = some r
  hdl : 0 < dl
  hlt : dl < r
  hds : (ds = 2 ∧ suffix = [false, true]) ∨ (ds = 0 ∧ suffix = [])

theorem Variant.r_pos {dl ds r : Nat} {sfx : List Bool} (hv : Variant dl ds r sfx) : 0 < r := by
  have := hv.hdl; have := hv.hlt; omega

theorem Variant.r_le {dl ds r : Nat} {sfx : List Bool} (hv : Variant dl ds r sfx) : r ≤ 200 := by
  have h := hv.hrate
  unfold rate at h
  split at h
  · simp only [Option.some.injEq] at h
    have : Cx.Extracted.Sha3.B = 200 := rfl
    omega
  · simp at h

/-- the padding block that `finalize` feeds to `process` is the FIPS 202 tail  suffix ‖ pad10*1 -/
theorem impl_pad_eq {dl ds r : Nat} {sfx : List Bool} (hv : Variant dl ds r sfx) (len : Nat) :
    ((if ds != 0 then set_domain_sep (dl * 8) (zeros (r - len % r)) else pure (zeros (r - len % r))).bind (set_pad ds))
      = some (padBytes r len sfx) := by
  have hr := hv.r_pos
  have hq : 1 ≤ r - len % r := by have := Nat.mod_lt len hr; omega
  rcases hv.hds with ⟨rfl, rfl⟩ | ⟨rfl, rfl⟩
  · rw [padBytes_sha3 r len hr]
    exact impl_pad_sha3 dl _ (by have := hv.hdl; omega) hq
  · rw [padBytes_keccak r len hr]
    exact impl_pad_keccak _ hq

theorem padBytes_length {dl ds r : Nat} {sfx : List Bool} (hv : Variant dl ds r sfx) (len : Nat) :
    (padBytes r len sfx).length = r - len % r := by
  have hr := hv.r_pos
  have hq : 1 ≤ r - len % r := by have := Nat.mod_lt len hr; omega
  rcases hv.hds with ⟨_, rfl⟩ | ⟨_, rfl⟩
  · rw [padBytes_sha3 r len hr, padLit_length _ _ hq]
  · rw [padBytes_keccak r len hr, padLit_length _ _ hq]

/-- the padded message is a whole number of blocks -/
theorem padded_length {dl ds r : Nat} {sfx : List Bool} (hv : Variant dl ds r sfx) (m : Bytes) :
    (m ++ padBytes r m.length sfx).length = r * (m.length / r + 1) := by
  have hr := hv.r_pos
  have h1 := Nat.div_add_mod m.length r
  have h2 := Nat.mod_lt m.length hr
  rw [List.length_append, padBytes_length hv, Nat.mul_succ]
  omega

/-- `Engine::finalize` absorbs exactly the FIPS 202 padding: the state becomes the one that represents
    m ‖ suffix ‖ pad10*1, with `can_absorb` cleared; it never panics (in particular the i64 arithmetic of `pad_len`
    does not overflow and its two internal `assert!`s hold) -/
theorem finalize_spec {dl ds r : Nat} {sfx : List Bool} (hv : Variant dl ds r sfx) (m : Bytes) :
    Engine.finalize dl ds (engine_of r m)
      = some { engine_of r (m ++ padBytes r m.length sfx) with can_absorb := false } := by
  have hr := hv.r_pos
  have hr2 := hv.r_le
  have hoff := Nat.mod_lt m.length hr
  have hds : ds ≤ 4 := by rcases hv.hds with ⟨rfl, _⟩ | ⟨rfl, _⟩ <;> omega
  have hpl : pad_len ds (m.length % r * 8) (r * 8) = some (r - m.length % r) := by
    rw [Nat.mul_comm _ 8, Nat.mul_comm r 8]
    exact pad_len_eq ds _ r (by omega) hoff (by omega)
  have hu1 : usizechk (m.length % r * 8) = some (m.length % r * 8) := usizechk_of_lt (by omega)
  have hu2 : usizechk (r * 8) = some (r * 8) := usizechk_of_lt (by omega)
  have hproc := process_spec dl r hv.hrate hr m (padBytes r m.length sfx)
  have hq : 1 ≤ r - m.length % r := by omega
  have hdl := hv.hdl
  simp only [engine_of] at hproc
  unfold Engine.finalize
  rcases hv.hds with ⟨rfl, rfl⟩ | ⟨rfl, rfl⟩
  · have hpad := impl_pad_sha3 dl _ (by omega) hq
    rw [← padBytes_sha3 r m.length hr] at hpad
    have h20 : ((2 : Nat) != 0) = true := rfl
    simp only [engine_of, Bool.not_true, Bool.false_eq_true, if_false, if_true, hv.hrate, Option.bind_eq_bind,
      Option.bind_some, hu1, hu2, hpl, h20]
    cases hc : set_domain_sep (dl * 8) (zeros (r - m.length % r)) with
    | none => rw [hc] at hpad; simp at hpad
    | some p =>
      rw [hc] at hpad
      simp only [Option.bind_some] at hpad
      simp only [Option.bind_some, hpad, hproc]
      rfl
  · have hpad := impl_pad_keccak _ hq
    rw [← padBytes_keccak r m.length hr] at hpad
    have h00 : ((0 : Nat) != 0) = false := rfl
    simp only [engine_of, Bool.not_true, Bool.false_eq_true, if_false, hv.hrate, Option.bind_eq_bind,
      Option.bind_some, hu1, hu2, hpl, h00, Option.pure_def, hpad, hproc]

/-- the engine after `finalize`: the sponge state S of Algorithm 8 after absorbing all of the padded message -/
theorem absorbed_padded {dl ds r : Nat} {sfx : List Bool} (hv : Variant dl ds r sfx) (m : Bytes) :
    engine_of r (m ++ padBytes r m.length sfx) =
      { state := absorbBlocks r ((m ++ padBytes r m.length sfx).length / r) (zeros 200) (m ++ padBytes r m.length sfx),
        can_absorb := true, can_squeeze := true, offset := 0 } := by
  have hr := hv.r_pos
  have hl := padded_length hv m
  have := engine_of_decomp r (m.length / r + 1) (m ++ padBytes r m.length sfx) [] hl (by simpa using hr)
  simp only [List.append_nil, xorPad_nil, List.length_nil] at this
  rw [this, hl, Nat.mul_div_cancel_left _ hr]

theorem squeeze_one (r d : Nat) (S : Bytes) (hd : 0 < d) (hdr : d ≤ r) (hS : S.length = 200) (hr : r ≤ 200) :
    squeeze r d S = S.take d := by
  obtain ⟨n, rfl⟩ : ∃ n, d = n + 1 := ⟨d - 1, by omega⟩
  unfold squeeze squeezeLoop
  rw [if_pos (by rw [List.length_take]; omega), List.take_take, Nat.min_eq_left hdr]

/-- `Engine::output` into a DIGESTLEN-byte buffer on the state representing m: the bytes are the FIPS 202 sponge
    output, the engine ends with both flags cleared; it never panics -/
theorem output_spec {dl ds r : Nat} {sfx : List Bool} (hv : Variant dl ds r sfx) (m : Bytes) :
    ∃ e', Engine.output dl ds (engine_of r m) dl = some (e', sponge r m sfx dl)
      ∧ e'.can_absorb = false ∧ e'.can_squeeze = false ∧ e'.state.length = 200 := by
  have hr := hv.r_pos
  have hr2 := hv.r_le
  have hdl := hv.hdl
  have hlt := hv.hlt
  have hfin := finalize_spec hv m
  rw [absorbed_padded hv m] at hfin
  generalize hS : absorbBlocks r ((m ++ padBytes r m.length sfx).length / r) (zeros 200) (m ++ padBytes r m.length sfx) = S at hfin
  have hSl : S.length = 200 := by rw [← hS]; exact absorbBlocks_length _ _ _ _ (zeros_length 200)
  have hspec : sponge r m sfx dl = S.take dl := by
    unfold sponge
    simp only [hS]
    exact squeeze_one r dl S hdl (by omega) hSl hr2
  have hdl0 : (dl != 0) = true := by simp; omega
  have hnread : squeeze_nread dl r 0 dl 0 = some dl := by
    unfold squeeze_nread
    simp only [Nat.zero_mod, Nat.sub_zero]
    rw [if_pos (by omega), if_neg (by omega)]
    congr 1
    omega
  have hloop : squeeze_loop dl r { state := S, can_absorb := false, can_squeeze := true, offset := 0 } dl 0 (zeros dl)
      = some ({ state := S, can_absorb := false, can_squeeze := true, offset := dl }, S.take dl) := by
    rw [squeeze_loop, dif_pos hdl, dif_neg (by omega)]
    simp only [hnread, Nat.zero_mod, Nat.add_zero, Nat.zero_add, List.drop_zero, List.take_zero, List.nil_append]
    rw [if_neg (by rw [hSl, zeros_length]; omega), dif_neg (by omega)]
    simp [zeros_length]
  refine ⟨{ state := S, can_absorb := false, can_squeeze := false, offset := dl }, ?_, rfl, rfl, hSl⟩
  unfold Engine.output
  simp only [engine_of, Bool.not_true, Bool.false_eq_true, if_false, if_true]
  simp only [engine_of] at hfin
  rw [hfin]
  simp only [Option.bind_eq_bind, Option.bind_some, hv.hrate, hdl0, if_true, hdl, not_true_eq_false, if_false, hloop, hspec]
  simp

/-- consequence for the one-shot function `X::new().update(input).finalize()` -/
theorem hash_spec {dl ds r : Nat} {sfx : List Bool} (hv : Variant dl ds r sfx) (m : Bytes) :
    Impl.Sha3.hash dl ds m = some (sponge r m sfx dl) := by
  obtain ⟨e', ho, _⟩ := output_spec hv m
  have hp := process_spec dl r hv.hrate hv.r_pos [] m
  rw [engine_of_nil r hv.r_pos, List.nil_append] at hp
  unfold Impl.Sha3.hash Context.update Context.new Context.finalize
  rw [hp]
  simp only [Option.bind_eq_bind, Option.bind_some, ho]
  rfl

/-! ## the eight instantiations of the crate -/

theorem variant_sha3_224 : Variant 28 2 144 [false, true] := ⟨by decide, by decide, by decide, Or.inl ⟨rfl, rfl⟩⟩
theorem variant_sha3_256 : Variant 32 2 136 [false, true] := ⟨by decide, by decide, by decide, Or.inl ⟨rfl, rfl⟩⟩
theorem variant_sha3_384 : Variant 48 2 104 [false, true] := ⟨by decide, by decide, by decide, Or.inl ⟨rfl, rfl⟩⟩
theorem variant_sha3_512 : Variant 64 2 72 [false, true] := ⟨by decide, by decide, by decide, Or.inl ⟨rfl, rfl⟩⟩
theorem variant_keccak224 : Variant 28 0 144 [] := ⟨by decide, by decide, by decide, Or.inr ⟨rfl, rfl⟩⟩
theorem variant_keccak256 : Variant 32 0 136 [] := ⟨by decide, by decide, by decide, Or.inr ⟨rfl, rfl⟩⟩
theorem variant_keccak384 : Variant 48 0 104 [] := ⟨by decide, by decide, by decide, Or.inr ⟨rfl, rfl⟩⟩
theorem variant_keccak512 : Variant 64 0 72 [] := ⟨by decide, by decide, by decide, Or.inr ⟨rfl, rfl⟩⟩

end Cx.Proofs.Sponge
