/-
  Proofs.StreamSse2 — C16(i): the SSE2-style row model (rows a,b,c,d of four lanes; `swizzle!` = lane rotations)
  computes the column/diagonal rounds of the portable engine, for every state and every R; counters, feed-forward
  and serialisation commute with the row↔word view `toRef`.
-/
import CxVerif.Proofs.StreamChaCha
namespace Cx.Proofs.ChaCha
open Cx Cx.Impl Cx.Impl.ChaCha Cx.Spec.Stream
set_option linter.unusedSimpArgs false
set_option linter.unusedVariables false

theorem bv_rot (x : BitVec 32) (n : Nat) (h0 : 0 < n) (h : n < 32) :
    (x <<< n) ^^^ (x >>> (32 - n)) = (x <<< n) ||| (x >>> (32 - n)) := by
  ext i hi
  simp only [BitVec.getElem_xor, BitVec.getElem_or, BitVec.getElem_shiftLeft, BitVec.getElem_ushiftRight]
  by_cases hin : i < n
  · simp [hin]
  · have : x.getLsbD (32 - n + i) = false := by
      apply BitVec.getLsbD_of_ge; omega
    simp [hin, this]

/-- `(c << d) ^ (c >> (32 - d))` is the rotation, for every shift count 0 < d < 32 -/
theorem rot_xor_or (x : UInt32) (n : Nat) (h0 : 0 < n) (h : n < 32) :
    Sse2.shl x n ^^^ Sse2.shr x (32 - n) = rotl32 x n := by
  have h2 : 32 - n < 32 := by omega
  simp only [Sse2.shl, Sse2.shr, h, h2, if_true, rotl32]
  have e1 : n % 32 = n := by omega
  have e2 : (32 - n) % 32 = 32 - n := by omega
  rw [e1, e2]
  apply UInt32.eq_of_toBitVec_eq
  simp only [UInt32.toBitVec_xor, UInt32.toBitVec_or, UInt32.toBitVec_shiftLeft, UInt32.toBitVec_shiftRight]
  have a1 : (UInt32.ofNat n).toBitVec % 32 = BitVec.ofNat 32 n := by
    apply BitVec.eq_of_toNat_eq; simp; omega
  have a2 : (UInt32.ofNat (32 - n)).toBitVec % 32 = BitVec.ofNat 32 (32 - n) := by
    apply BitVec.eq_of_toNat_eq; simp; omega
  rw [a1, a2]
  have b1 : ∀ y : BitVec 32, y <<< BitVec.ofNat 32 n = y <<< n := by
    intro y; simp [BitVec.shiftLeft_eq', Nat.mod_eq_of_lt (show n < 2^32 by omega)]
  have b2 : ∀ y : BitVec 32, y >>> BitVec.ofNat 32 (32 - n) = y >>> (32 - n) := by
    intro y; simp [BitVec.ushiftRight_eq', Nat.mod_eq_of_lt (show 32 - n < 2^32 by omega)]
  rw [b1, b2]
  exact bv_rot _ n h0 h

/-- rows → the sixteen words of the portable engine: a = x0..x3, b = x4..x7, c = x8..x11, d = x12..x15 -/
def toRef (s : Sse2.State) : W16 :=
  ⟨s.a.l0, s.a.l1, s.a.l2, s.a.l3, s.b.l0, s.b.l1, s.b.l2, s.b.l3,
   s.c.l0, s.c.l1, s.c.l2, s.c.l3, s.d.l0, s.d.l1, s.d.l2, s.d.l3⟩

/-- the four column quarter rounds (projection form) -/
def colR (w : W16) : W16 :=
  let q0 := Reference.QR w.x0 w.x4 w.x8 w.x12
  let q1 := Reference.QR w.x1 w.x5 w.x9 w.x13
  let q2 := Reference.QR w.x2 w.x6 w.x10 w.x14
  let q3 := Reference.QR w.x3 w.x7 w.x11 w.x15
  ⟨q0.1, q1.1, q2.1, q3.1, q0.2.1, q1.2.1, q2.2.1, q3.2.1, q0.2.2.1, q1.2.2.1, q2.2.2.1, q3.2.2.1, q0.2.2.2, q1.2.2.2, q2.2.2.2, q3.2.2.2⟩

/-- the four diagonal quarter rounds (projection form) -/
def diagR (w : W16) : W16 :=
  let q0 := Reference.QR w.x0 w.x5 w.x10 w.x15
  let q1 := Reference.QR w.x1 w.x6 w.x11 w.x12
  let q2 := Reference.QR w.x2 w.x7 w.x8 w.x13
  let q3 := Reference.QR w.x3 w.x4 w.x9 w.x14
  ⟨q0.1, q1.1, q2.1, q3.1, q3.2.1, q0.2.1, q1.2.1, q2.2.1, q2.2.2.1, q3.2.2.1, q0.2.2.1, q1.2.2.1, q1.2.2.2, q2.2.2.2, q3.2.2.2, q0.2.2.2⟩

/-- rows b,c,d rotated left by 1,2,3 lanes: diagonals become columns -/
def perm (w : W16) : W16 :=
  ⟨w.x0, w.x1, w.x2, w.x3, w.x5, w.x6, w.x7, w.x4, w.x10, w.x11, w.x8, w.x9, w.x15, w.x12, w.x13, w.x14⟩
def unperm (w : W16) : W16 :=
  ⟨w.x0, w.x1, w.x2, w.x3, w.x7, w.x4, w.x5, w.x6, w.x10, w.x11, w.x8, w.x9, w.x13, w.x14, w.x15, w.x12⟩

theorem diag_perm (w : W16) : diagR w = unperm (colR (perm w)) := by cases w; rfl

/-- the portable loop body is: columns, then diagonals -/
theorem ref_doubleRound (w : W16) : Reference.doubleRound w = diagR (colR w) := by
  obtain ⟨x0,x1,x2,x3,x4,x5,x6,x7,x8,x9,x10,x11,x12,x13,x14,x15⟩ := w
  simp only [Reference.doubleRound, colR, diagR]

/-- `round!` on the four rows = the four column quarter rounds, lane by lane -/
theorem round_eq (s : Sse2.State) : toRef (Sse2.round s) = colR (toRef s) := by
  obtain ⟨⟨a0,a1,a2,a3⟩,⟨b0,b1,b2,b3⟩,⟨c0,c1,c2,c3⟩,⟨d0,d1,d2,d3⟩⟩ := s
  simp only [Sse2.round, Sse2.add_rotate_xor, Sse2._mm_add_epi32, Sse2._mm_xor_si128, Sse2._mm_slli_epi32,
    Sse2._mm_srli_epi32, toRef, colR, Reference.QR,
    rot_xor_or _ 16 (by omega) (by omega), rot_xor_or _ 12 (by omega) (by omega),
    rot_xor_or _ 8 (by omega) (by omega), rot_xor_or _ 7 (by omega) (by omega)]

/-- `swizzle!(b, c, d)` -/
def swz (s : Sse2.State) : Sse2.State :=
  match Sse2.swizzle s.b s.c s.d with | (b, c, d) => { s with b := b, c := c, d := d }
/-- `swizzle!(d, c, b)` -/
def unswz (s : Sse2.State) : Sse2.State :=
  match Sse2.swizzle s.d s.c s.b with | (d, c, b) => { s with b := b, c := c, d := d }

theorem swz_eq (s : Sse2.State) : toRef (swz s) = perm (toRef s) := by
  obtain ⟨⟨a0,a1,a2,a3⟩,⟨b0,b1,b2,b3⟩,⟨c0,c1,c2,c3⟩,⟨d0,d1,d2,d3⟩⟩ := s; rfl
theorem unswz_eq (s : Sse2.State) : toRef (unswz s) = unperm (toRef s) := by
  obtain ⟨⟨a0,a1,a2,a3⟩,⟨b0,b1,b2,b3⟩,⟨c0,c1,c2,c3⟩,⟨d0,d1,d2,d3⟩⟩ := s; rfl

theorem sse2_doubleRound_unfold (s : Sse2.State) : Sse2.doubleRound s = unswz (Sse2.round (swz (Sse2.round s))) := rfl

/-- **one SSE2 loop iteration = one portable loop iteration**, for every state -/
theorem sse2_doubleRound (s : Sse2.State) : toRef (Sse2.doubleRound s) = Reference.doubleRound (toRef s) := by
  rw [sse2_doubleRound_unfold, unswz_eq, round_eq, swz_eq, round_eq, ref_doubleRound, diag_perm]

theorem sse2_loop (n : Nat) : ∀ s, toRef (Sse2.loop Sse2.doubleRound n s) = Reference.loop Reference.doubleRound n (toRef s) := by
  induction n with
  | zero => intro s; rfl
  | succ n ih => intro s; simp only [Sse2.loop, Reference.loop, ih, sse2_doubleRound]

/-- **SSE2 `rounds` = portable `rounds`** for every state and every R -/
theorem sse2_rounds (R : Nat) (s : Sse2.State) : toRef (Sse2.rounds R s) = Reference.rounds R (toRef s) :=
  sse2_loop (R / 2) s

theorem sse2_add_back (s i : Sse2.State) : toRef (Sse2.add_back s i) = Reference.add_back (toRef s) (toRef i) := rfl
theorem sse2_output_bytes (s : Sse2.State) : Sse2.output_bytes s = Reference.output_bytes (toRef s) := rfl
theorem sse2_output_ad_bytes (s : Sse2.State) : Sse2.output_ad_bytes s = Reference.output_ad_bytes (toRef s) := rfl
theorem sse2_set_counter (s : Sse2.State) (c : UInt32) : toRef (Sse2.set_counter s c) = Reference.set_counter (toRef s) c := rfl
theorem sse2_set_counter64 (s : Sse2.State) (c : UInt64) :
    toRef (Sse2.verif_set_counter64 s c) = Reference.verif_set_counter64 (toRef s) c := rfl
theorem sse2_increment (s : Sse2.State) : toRef (Sse2.increment s) = Reference.increment (toRef s) := rfl

theorem u32_succ_eq_zero (x : UInt32) : x + 1 = 0 ↔ x = 0xFFFFFFFF := by
  constructor
  · intro h
    have : x = x + 1 - 1 := by rw [UInt32.add_sub_cancel]
    rw [this, h]; rfl
  · intro h; subst h; rfl

/-- `overflowing_add(1)` (SSE2) and `wrapping_add(1) == 0` (portable) are the same carry test -/
theorem sse2_increment64 (s : Sse2.State) : toRef (Sse2.increment64 s) = Reference.increment64 (toRef s) := by
  simp only [Sse2.increment64, Reference.increment64, toRef]
  by_cases h : s.d.l0 = 0xFFFFFFFF
  · have h' : s.d.l0 + 1 = 0 := (u32_succ_eq_zero _).2 h
    simp only [h', if_true]; simp [h]
  · have h' : ¬ (s.d.l0 + 1 = 0) := fun e => h ((u32_succ_eq_zero _).1 e)
    simp only [h', if_false]; simp [h]

end Cx.Proofs.ChaCha
