/-
  Proofs.Fe32Arith — Add / Sub / Neg of fe32: limb-wise, no carry; no i32 overflow while the weights stay ≤ 63,
  the value is the integer sum / difference / negation, the weight adds up.
-/
import CxVerif.Proofs.Fe32Basic
namespace Cx.Proofs.Fe32
open Cx Cx.Impl.Fe32
open Cx.Spec
open Cx.Spec.Field25519 (p)

theorem add_spec (f g : Fe) (a b : Int) (hf : W a f) (hg : W b g) (hab : a + b ≤ 63) :
    ∃ h, add f g = some h ∧ W (a + b) h ∧ val h = val f + val g ∧
      eval h = Field25519.add (eval f) (eval g) := by
  unfold W at hf hg
  refine ⟨⟨f.l0 + g.l0, f.l1 + g.l1, f.l2 + g.l2, f.l3 + g.l3, f.l4 + g.l4, f.l5 + g.l5, f.l6 + g.l6,
    f.l7 + g.l7, f.l8 + g.l8, f.l9 + g.l9⟩, ?_, ?_, ?_, ?_⟩
  · unfold add
    rw [add32_bind _ _ _ (by omega), add32_bind _ _ _ (by omega), add32_bind _ _ _ (by omega),
      add32_bind _ _ _ (by omega), add32_bind _ _ _ (by omega), add32_bind _ _ _ (by omega),
      add32_bind _ _ _ (by omega), add32_bind _ _ _ (by omega), add32_bind _ _ _ (by omega),
      add32_bind _ _ _ (by omega)]
    rfl
  · unfold W; simp only; omega
  · unfold val; simp only; ring
  · apply eval_add_of_val; unfold val; simp only; ring

theorem sub_spec (f g : Fe) (a b : Int) (hf : W a f) (hg : W b g) (hab : a + b ≤ 63) :
    ∃ h, sub f g = some h ∧ W (a + b) h ∧ val h = val f - val g ∧
      eval h = Field25519.sub (eval f) (eval g) := by
  unfold W at hf hg
  refine ⟨⟨f.l0 - g.l0, f.l1 - g.l1, f.l2 - g.l2, f.l3 - g.l3, f.l4 - g.l4, f.l5 - g.l5, f.l6 - g.l6,
    f.l7 - g.l7, f.l8 - g.l8, f.l9 - g.l9⟩, ?_, ?_, ?_, ?_⟩
  · unfold sub
    rw [sub32_bind _ _ _ (by omega), sub32_bind _ _ _ (by omega), sub32_bind _ _ _ (by omega),
      sub32_bind _ _ _ (by omega), sub32_bind _ _ _ (by omega), sub32_bind _ _ _ (by omega),
      sub32_bind _ _ _ (by omega), sub32_bind _ _ _ (by omega), sub32_bind _ _ _ (by omega),
      sub32_bind _ _ _ (by omega)]
    rfl
  · unfold W; simp only; omega
  · unfold val; simp only; ring
  · apply eval_sub_of_val; unfold val; simp only; ring

theorem neg_spec (f : Fe) (a : Int) (hf : W a f) (ha : a ≤ 63) :
    ∃ h, neg f = some h ∧ W a h ∧ val h = -val f ∧ eval h = Field25519.neg (eval f) := by
  unfold W at hf
  refine ⟨⟨-f.l0, -f.l1, -f.l2, -f.l3, -f.l4, -f.l5, -f.l6, -f.l7, -f.l8, -f.l9⟩, ?_, ?_, ?_, ?_⟩
  · unfold neg
    rw [neg32_bind _ _ (by omega), neg32_bind _ _ (by omega), neg32_bind _ _ (by omega),
      neg32_bind _ _ (by omega), neg32_bind _ _ (by omega), neg32_bind _ _ (by omega),
      neg32_bind _ _ (by omega), neg32_bind _ _ (by omega), neg32_bind _ _ (by omega),
      neg32_bind _ _ (by omega)]
    rfl
  · unfold W; simp only; omega
  · unfold val; simp only; ring
  · apply eval_neg_of_val; unfold val; simp only; ring

theorem negate_mut_spec (f : Fe) (a : Int) (hf : W a f) (ha : a ≤ 63) :
    ∃ h, negate_mut f = some h ∧ W a h ∧ val h = -val f ∧ eval h = Field25519.neg (eval f) := neg_spec f a hf ha

end Cx.Proofs.Fe32
