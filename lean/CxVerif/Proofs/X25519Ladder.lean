/-
  Proofs.X25519Ladder — the Montgomery ladder of `curve25519` refines the RFC 7748 loop:
  bit extraction, masked swaps (C18), loop induction, final swap / inversion / encoding.
-/
import CxVerif.Proofs.X25519Arith
namespace Cx.Proofs.X25519
open Cx Cx.Spec Cx.Impl.Fe64 Cx.Impl.X25519 Cx.Impl.CT Cx.Proofs.Fe64
open Cx.Spec.Field25519 (p)
open Cx.Props.C18 (Choice.ofBool)

/-! ## bits of a little-endian byte string -/

theorem div_pow_lt8 (b L t : Nat) (ht : t < 8) : (b + 256 * L) / 2^t % 2 = b / 2^t % 2 := by
  have : t = 0 ∨ t = 1 ∨ t = 2 ∨ t = 3 ∨ t = 4 ∨ t = 5 ∨ t = 6 ∨ t = 7 := by omega
  rcases this with h | h | h | h | h | h | h | h <;> subst h <;> omega

theorem div_pow_ge8 (b L t : Nat) (hb : b < 256) (ht : 8 ≤ t) : (b + 256 * L) / 2^t = L / 2^(t - 8) := by
  have : 2^t = 256 * 2^(t - 8) := by
    rw [show (256:Nat) = 2^8 from rfl, ← Nat.pow_add]; congr 1; omega
  rw [this, ← Nat.div_div_eq_div_mul]
  congr 1; omega

/-- bit `t` of the little-endian value is bit `t % 8` of byte `t / 8` -/
theorem leNat_bit (e : Bytes) : ∀ (t : Nat) (h : t / 8 < e.length),
    leNat e / 2^t % 2 = (e[t / 8]'h).toNat / 2^(t % 8) % 2 := by
  induction e with
  | nil => intro t h; simp at h
  | cons b bs ih =>
    intro t h
    simp only [leNat]
    by_cases ht : t < 8
    · have h0 : t / 8 = 0 := by omega
      have h1 : t % 8 = t := by omega
      simp only [h0, h1, List.getElem_cons_zero]
      exact div_pow_lt8 _ _ _ ht
    · have hb : b.toNat < 256 := UInt8.toNat_lt b
      rw [div_pow_ge8 _ _ _ hb (by omega)]
      have h0 : t / 8 = (t - 8) / 8 + 1 := by omega
      have h1 : t % 8 = (t - 8) % 8 := by omega
      simp only [List.length_cons] at h
      rw [ih (t - 8) (by omega)]
      simp only [h0, h1, List.getElem_cons_succ]

theorem u8_bit (x : UInt8) (s : Nat) (hs : s < 8) :
    ((x >>> UInt8.ofNat s) &&& 1).toNat = x.toNat / 2^s % 2 := by
  rw [UInt8.toNat_and, UInt8.toNat_shiftRight]
  have : (UInt8.ofNat s).toNat % 8 = s := by
    simp only [UInt8.toNat_ofNat']; omega
  rw [this, Nat.shiftRight_eq_div_pow]
  exact Nat.and_one_is_mod _

/-- the code's bit extraction is the RFC's `(k >> t) & 1` on the decoded scalar -/
theorem bitChoice_spec (e : Bytes) (he : e.length = 32) (pos : Nat) (hp : pos < 255) :
    bitChoice e he pos hp = Choice.ofBool (leNat e / 2^pos % 2 = 1) := by
  unfold bitChoice
  rw [Cx.Props.C18.u8_ct_nonzero_spec]
  have h7 : pos &&& 7 = pos % 8 := Nat.and_two_pow_sub_one_eq_mod pos 3
  have hb := u8_bit (e[pos / 8]'(by omega)) (pos &&& 7) (by omega)
  rw [h7] at hb
  rw [leNat_bit e pos (by omega), ← hb, h7]
  have h2 : (((e[pos / 8]'(by omega)) >>> UInt8.ofNat (pos % 8)) &&& 1).toNat < 2 := by
    rw [hb]; exact Nat.mod_lt _ (by decide)
  generalize ((e[pos / 8]'(by omega)) >>> UInt8.ofNat (pos % 8)) &&& 1 = y at h2
  unfold Choice.ofBool
  by_cases hy : y = 0
  · subst hy; simp
  · have : y.toNat ≠ 0 := fun h => hy (UInt8.toNat_inj.mp (by simpa using h))
    have : y.toNat = 1 := by omega
    simp [hy, this]

/-! ## one loop iteration -/

/-- the simulation relation between the code's registers and the RFC's variables -/
structure R (s : Ladder) (t : X25519.State) : Prop where
  tx2 : Tight s.x2
  tz2 : Tight s.z2
  tx3 : Tight s.x3
  tz3 : Tight s.z3
  vx2 : eval s.x2 = t.x2
  vz2 : eval s.z2 = t.z2
  vx3 : eval s.x3 = t.x3
  vz3 : eval s.z3 = t.z3
  sw : ∃ c : Bool, s.swap = Choice.ofBool c ∧ t.swap = c.toNat

theorem Tight.word {f : Fe} (h : Tight f) : Bnd (2^64) f := Bnd.mono (by decide) h

theorem step_spec (e : Bytes) (he : e.length = 32) (z5k : Z5) (x1v : Nat) (hz5 : Z5Ok z5k x1v)
    (s : Ladder) (t : X25519.State) (hR : R s t) (pos : Nat) (hp : pos < 255) :
    ∃ s', ladderStep e he 121666 z5k s pos hp = some s' ∧ R s' (X25519.step (leNat e) x1v t pos) := by
  obtain ⟨tx2, tz2, tx3, tz3, vx2, vz2, vx3, vz3, c, hc, hct⟩ := hR
  unfold ladderStep ladderStepCore
  rw [bitChoice_spec e he pos hp, hc, Cx.Props.C18.choice_xor,
    maybe_swap_with_spec _ _ (Tight.word tx2) (Tight.word tx3),
    maybe_swap_with_spec _ _ (Tight.word tz2) (Tight.word tz3)]
  generalize hkb : decide (leNat e / 2 ^ pos % 2 = 1) = kb
  have hkt : leNat e / 2 ^ pos % 2 = kb.toNat := by
    have := Nat.mod_two_eq_zero_or_one (leNat e / 2 ^ pos)
    rcases this with h | h <;> simp [h] at hkb <;> subst hkb <;> simp [h]
  -- the Spec's swap decision
  have hsw : (t.swap + leNat e / 2 ^ pos % 2) % 2 = (c ^^ kb).toNat := by
    rw [hct, hkt]; cases c <;> cases kb <;> rfl
  simp only [X25519.step]
  rw [hsw]
  simp only [hkt]
  cases hx : (c ^^ kb)
  · -- no swap
    simp only [Bool.false_eq_true, if_false, X25519.cswap, Bool.toNat_false, Nat.zero_ne_one]
    obtain ⟨x4, z4, x5, z5, ea, t4, tz4, t5, tz5, hv⟩ :=
      ladderArith_spec z5k x1v hz5 s.x2 s.z2 s.x3 s.z3 tx2 tz2 tx3 tz3
    rw [ea, Option.map_some]
    simp only [specArith, Prod.mk.injEq] at hv
    obtain ⟨h1, h2, h3, h4⟩ := hv
    refine ⟨_, rfl, ⟨t4, tz4, t5, tz5, ?_, ?_, ?_, ?_, ⟨kb, rfl, rfl⟩⟩⟩
    · rw [h1, vx2, vz2]
    · rw [h2, vx2, vz2]
    · rw [h3, vx2, vz2, vx3, vz3]
    · rw [h4, vx2, vz2, vx3, vz3]
  · -- swap
    simp only [if_true, X25519.cswap, Bool.toNat_true]
    obtain ⟨x4, z4, x5, z5, ea, t4, tz4, t5, tz5, hv⟩ :=
      ladderArith_spec z5k x1v hz5 s.x3 s.z3 s.x2 s.z2 tx3 tz3 tx2 tz2
    rw [ea, Option.map_some]
    simp only [specArith, Prod.mk.injEq] at hv
    obtain ⟨h1, h2, h3, h4⟩ := hv
    refine ⟨_, rfl, ⟨t4, tz4, t5, tz5, ?_, ?_, ?_, ?_, ⟨kb, rfl, rfl⟩⟩⟩
    · rw [h1, vx3, vz3]
    · rw [h2, vx3, vz3]
    · rw [h3, vx2, vz2, vx3, vz3]
    · rw [h4, vx2, vz2, vx3, vz3]

/-! ## the loop -/

theorem range_succ_reverse (k : Nat) : (List.range (k + 1)).reverse = k :: (List.range k).reverse := by
  rw [List.range_succ, List.reverse_append]; rfl

theorem loop_spec (e : Bytes) (he : e.length = 32) (z5k : Z5) (x1v : Nat) (hz5 : Z5Ok z5k x1v) :
    ∀ (k : Nat) (hk : k ≤ 255) (s : Ladder) (t : X25519.State), R s t →
      ∃ s', ladderLoop e he 121666 z5k k hk s = some s' ∧
        R s' ((List.range k).reverse.foldl (X25519.step (leNat e) x1v) t) := by
  intro k
  induction k with
  | zero => intro hk s t hR; exact ⟨s, rfl, hR⟩
  | succ k ih =>
    intro hk s t hR
    obtain ⟨s1, h1, hR1⟩ := step_spec e he z5k x1v hz5 s t hR k (by omega)
    obtain ⟨s2, h2, hR2⟩ := ih (by omega) s1 _ hR1
    refine ⟨s2, ?_, ?_⟩
    · rw [ladderLoop, h1, Option.bind_some]; exact h2
    · rw [range_succ_reverse, List.foldl_cons]; exact hR2

/-! ## the whole function -/

theorem clampE_eq (n : Bytes) : clampE n = X25519.clamp n := rfl

theorem init_swap : u64_ct_zero 1 = Choice.ofBool false := by decide

/-- the statements shared by `curve25519` and `curve25519_base`, for a Tight `x1` denoting `x1v`
    and either variant of `z5` -/
theorem ladderMain_spec (n : Bytes) (hn : n.length = 32) (x1 : Fe) (hx1 : Tight x1) (z5k : Z5)
    (hz5 : Z5Ok z5k (eval x1)) :
    ladderMain n hn x1 121666 z5k
      = some (Field25519.encode (X25519.ladder (X25519.decodeScalar25519 n) (eval x1))) := by
  unfold ladderMain
  simp only []
  have hR0 : R ⟨Fe.ONE, Fe.ZERO, x1, Fe.ONE, u64_ct_zero 1⟩ ⟨1, 0, eval x1, 1, 0⟩ :=
    ⟨bnd51_tight ONE_spec.1, bnd51_tight ZERO_spec.1, hx1, bnd51_tight ONE_spec.1,
      ONE_spec.2, ZERO_spec.2, rfl, ONE_spec.2, ⟨false, init_swap, rfl⟩⟩
  obtain ⟨s, hs, hR⟩ := loop_spec (clampE n) (by rw [clampE_length]; exact hn) z5k (eval x1) hz5 255
    (by omega) _ _ hR0
  rw [hs, some_bind]
  obtain ⟨tx2, tz2, tx3, tz3, vx2, vz2, vx3, vz3, c, hc, hct⟩ := hR
  rw [hc, maybe_swap_with_spec _ _ (Tight.word tx2) (Tight.word tx3),
    maybe_swap_with_spec _ _ (Tight.word tz2) (Tight.word tz3)]
  unfold X25519.ladder X25519.ladderState X25519.decodeScalar25519
  rw [← clampE_eq]
  simp only []
  rw [hct]
  cases c
  · simp only [Bool.false_eq_true, if_false, X25519.cswap, Bool.toNat_false, Nat.zero_ne_one]
    obtain ⟨zi, e, tzi, vzi⟩ := invert_spec s.z2 tz2.loose; rw [e, some_bind]
    obtain ⟨r, e, tr, vr⟩ := mul_spec zi s.x2 tzi.loose tx2.loose; rw [e, some_bind]
    rw [to_bytes_spec r tr.loose, vr, vzi, vx2, vz2, mul_comm']
    rfl
  · simp only [if_true, X25519.cswap, Bool.toNat_true]
    obtain ⟨zi, e, tzi, vzi⟩ := invert_spec s.z3 tz3.loose; rw [e, some_bind]
    obtain ⟨r, e, tr, vr⟩ := mul_spec zi s.x3 tzi.loose tx3.loose; rw [e, some_bind]
    rw [to_bytes_spec r tr.loose, vr, vzi, vx3, vz3, mul_comm']
    rfl

end Cx.Proofs.X25519
