/-
  Proofs.Fe64Arith — Add, Sub, Neg, Mul, mul_small of fe64: no u64/u128 overflow under the limb
  invariant, output invariant, value modulo p.
-/
import CxVerif.Proofs.Fe64Basic
namespace Cx.Proofs.Fe64
open Cx Cx.Spec Cx.Impl.Fe64
open Cx.Spec.Field25519 (p)

/-- discharge the checked operations of a straight-line limb program, one after the other -/
macro "ck_steps" : tactic => `(tactic|
  repeat (first
    | rw [add128_bind _ _ _ (by omega)]
    | rw [add64_bind _ _ _ (by omega)]
    | rw [sub64_bind _ _ _ (by omega)]
    | rw [mul64_bind _ _ _ (by omega)]))

theorem sub_lemma {h k g f : Nat} (e : h + p * k + g = f + 4 * p) :
    h % p = Field25519.sub (f % p) (g % p) := by
  rw [sub_mod]; unfold Field25519.sub
  simp only [p_eq] at *
  omega

/-! ## Add -/

theorem add_spec (f g : Fe) (hf : Loose f) (hg : Loose g) :
    ∃ h, add f g = some h ∧ Tight h ∧ eval h = Field25519.add (eval f) (eval g) := by
  obtain ⟨f0, f1, f2, f3, f4⟩ := f
  obtain ⟨g0, g1, g2, g3, g4⟩ := g
  simp only [Loose, Bnd] at hf hg
  simp only [add, land_MASK, shr51]
  ck_steps
  refine ⟨_, rfl, ?_, ?_⟩
  · simp only [Tight, Bnd]; omega
  · simp only [eval, Field25519.add, val, p_eq]; omega

/-! ## Sub, Neg -/

theorem sub_spec (f g : Fe) (hf : Loose f) (hg : SubOk g) :
    ∃ h, sub f g = some h ∧ Tight h ∧ eval h = Field25519.sub (eval f) (eval g) := by
  obtain ⟨f0, f1, f2, f3, f4⟩ := f
  obtain ⟨g0, g1, g2, g3, g4⟩ := g
  simp only [Loose, SubOk, Bnd] at hf hg
  simp only [sub, land_MASK, shr51, FOUR_P0_eq, FOUR_P1234_eq]
  ck_steps
  generalize hk : (f4 + (2 ^ 53 - 4) - g4 + (f3 + (2 ^ 53 - 4) - g3 + (f2 + (2 ^ 53 - 4) - g2 +
    (f1 + (2 ^ 53 - 4) - g1 + (f0 + (2 ^ 53 - 76) - g0) / 2 ^ 51) / 2 ^ 51) / 2 ^ 51) / 2 ^ 51) / 2 ^ 51 = k
  refine ⟨_, rfl, ?_, ?_⟩
  · simp only [Tight, Bnd]; omega
  · simp only [eval]
    apply sub_lemma (k := k)
    simp only [val, p_eq]; omega

theorem neg_lemma {h k g : Nat} (e : h + p * k + g = 4 * p) :
    h % p = Field25519.neg (g % p) := by
  rw [neg_mod]; unfold Field25519.neg
  simp only [p_eq] at *
  omega

theorem neg_spec (g : Fe) (hg : SubOk g) :
    ∃ h, neg g = some h ∧ Tight h ∧ eval h = Field25519.neg (eval g) := by
  obtain ⟨g0, g1, g2, g3, g4⟩ := g
  simp only [SubOk, Bnd] at hg
  simp only [neg, land_MASK, shr51, FOUR_P0_eq, FOUR_P1234_eq]
  ck_steps
  generalize hk : ((2 ^ 53 - 4) - g4 + ((2 ^ 53 - 4) - g3 + ((2 ^ 53 - 4) - g2 +
    ((2 ^ 53 - 4) - g1 + ((2 ^ 53 - 76) - g0) / 2 ^ 51) / 2 ^ 51) / 2 ^ 51) / 2 ^ 51) / 2 ^ 51 = k
  refine ⟨_, rfl, ?_, ?_⟩
  · simp only [Tight, Bnd]; omega
  · simp only [eval]
    apply neg_lemma (k := k)
    simp only [val, p_eq]; omega

theorem negate_mut_spec (g : Fe) (hg : SubOk g) :
    ∃ h, negate_mut g = some h ∧ Tight h ∧ eval h = Field25519.neg (eval g) := neg_spec g hg

/-! ## the u128 carry chain shared by Mul and mul_small -/

theorem carry128_spec (t0 t1 t2 t3 t4 : Nat) (h0 : t0 < 77 * 2^108) (h1 : t1 < 77 * 2^108)
    (h2 : t2 < 77 * 2^108) (h3 : t3 < 77 * 2^108) (h4 : t4 < 5 * 2^108) :
    ∃ h k, carry128 t0 t1 t2 t3 t4 = some h ∧ Bnd (2^51 + 2^13) h ∧
      val h + p * k = t0 + 2^51 * t1 + 2^102 * t2 + 2^153 * t3 + 2^204 * t4 := by
  simp only [carry128, land_MASK, shr51, mod64_mod51]
  rw [Nat.mod_eq_of_lt (show t0 / 2^51 < 2^64 by omega)]
  generalize hc0 : t0 / 2^51 = c0
  rw [add128_bind _ _ _ (by omega)]
  rw [Nat.mod_eq_of_lt (show (t1 + c0) / 2^51 < 2^64 by omega)]
  generalize hc1 : (t1 + c0) / 2^51 = c1
  rw [add128_bind _ _ _ (by omega)]
  rw [Nat.mod_eq_of_lt (show (t2 + c1) / 2^51 < 2^64 by omega)]
  generalize hc2 : (t2 + c1) / 2^51 = c2
  rw [add128_bind _ _ _ (by omega)]
  rw [Nat.mod_eq_of_lt (show (t3 + c2) / 2^51 < 2^64 by omega)]
  generalize hc3 : (t3 + c2) / 2^51 = c3
  rw [add128_bind _ _ _ (by omega)]
  rw [Nat.mod_eq_of_lt (show (t4 + c3) / 2^51 < 2^64 by omega)]
  generalize hc4 : (t4 + c3) / 2^51 = c4
  rw [mul64_bind _ _ _ (by omega)]
  rw [add64_bind _ _ _ (by omega)]
  rw [add64_bind _ _ _ (by omega)]
  refine ⟨_, c4, rfl, ?_, ?_⟩
  · simp only [Bnd]; omega
  · simp only [val, p_eq]; omega

theorem carry128_elim {t0 t1 t2 t3 t4 : Nat} {P : Fe → Prop}
    (h0 : t0 < 77 * 2^108) (h1 : t1 < 77 * 2^108) (h2 : t2 < 77 * 2^108)
    (h3 : t3 < 77 * 2^108) (h4 : t4 < 5 * 2^108)
    (hP : ∀ h k, Bnd (2^51 + 2^13) h →
      val h + p * k = t0 + 2^51 * t1 + 2^102 * t2 + 2^153 * t3 + 2^204 * t4 → P h) :
    ∃ h, carry128 t0 t1 t2 t3 t4 = some h ∧ P h := by
  obtain ⟨h, k, hc, hb, hv⟩ := carry128_spec t0 t1 t2 t3 t4 h0 h1 h2 h3 h4
  exact ⟨h, hc, hP h k hb hv⟩

/-! ## Mul -/

/-- the 25-product identity: the folded columns differ from the full product by a multiple of p -/
theorem mul_columns (f0 f1 f2 f3 f4 g0 g1 g2 g3 g4 : Nat) :
    val ⟨f0, f1, f2, f3, f4⟩ * val ⟨g0, g1, g2, g3, g4⟩ =
      (f0 * g0 + (f4 * g1 * 19 + f1 * g4 * 19 + f2 * g3 * 19 + f3 * g2 * 19) +
        2^51 * (f0 * g1 + f1 * g0 + (f4 * g2 * 19 + f2 * g4 * 19 + f3 * g3 * 19)) +
        2^102 * (f0 * g2 + f2 * g0 + f1 * g1 + (f4 * g3 * 19 + f3 * g4 * 19)) +
        2^153 * (f0 * g3 + f3 * g0 + f1 * g2 + f2 * g1 + f4 * g4 * 19) +
        2^204 * (f0 * g4 + f4 * g0 + f3 * g1 + f1 * g3 + f2 * g2))
      + p * (f4 * g1 + f1 * g4 + f2 * g3 + f3 * g2 + 2^51 * (f4 * g2 + f2 * g4 + f3 * g3)
        + 2^102 * (f4 * g3 + f3 * g4) + 2^153 * (f4 * g4)) := by
  simp only [val, p_eq]; norm_num; ring

theorem mul_spec (f g : Fe) (hf : Loose f) (hg : Loose g) :
    ∃ h, mul f g = some h ∧ Tight h ∧ eval h = Field25519.mul (eval f) (eval g) := by
  obtain ⟨f0, f1, f2, f3, f4⟩ := f
  obtain ⟨g0, g1, g2, g3, g4⟩ := g
  simp only [Loose, Bnd] at hf hg
  obtain ⟨hf0, hf1, hf2, hf3, hf4⟩ := hf
  obtain ⟨hg0, hg1, hg2, hg3, hg4⟩ := hg
  have p00 := Nat.mul_lt_mul'' hf0 hg0
  have p01 := Nat.mul_lt_mul'' hf0 hg1
  have p02 := Nat.mul_lt_mul'' hf0 hg2
  have p03 := Nat.mul_lt_mul'' hf0 hg3
  have p04 := Nat.mul_lt_mul'' hf0 hg4
  have p10 := Nat.mul_lt_mul'' hf1 hg0
  have p11 := Nat.mul_lt_mul'' hf1 hg1
  have p12 := Nat.mul_lt_mul'' hf1 hg2
  have p13 := Nat.mul_lt_mul'' hf1 hg3
  have p14 := Nat.mul_lt_mul'' hf1 hg4
  have p20 := Nat.mul_lt_mul'' hf2 hg0
  have p21 := Nat.mul_lt_mul'' hf2 hg1
  have p22 := Nat.mul_lt_mul'' hf2 hg2
  have p23 := Nat.mul_lt_mul'' hf2 hg3
  have p24 := Nat.mul_lt_mul'' hf2 hg4
  have p30 := Nat.mul_lt_mul'' hf3 hg0
  have p31 := Nat.mul_lt_mul'' hf3 hg1
  have p32 := Nat.mul_lt_mul'' hf3 hg2
  have p33 := Nat.mul_lt_mul'' hf3 hg3
  have p34 := Nat.mul_lt_mul'' hf3 hg4
  have p40 := Nat.mul_lt_mul'' hf4 hg0
  have p41 := Nat.mul_lt_mul'' hf4 hg1
  have p42 := Nat.mul_lt_mul'' hf4 hg2
  have p43 := Nat.mul_lt_mul'' hf4 hg3
  have p44 := Nat.mul_lt_mul'' hf4 hg4
  simp only [mul, mul128]
  ck_steps
  simp only [Nat.mul_right_comm _ 19 _]
  ck_steps
  apply carry128_elim (by omega) (by omega) (by omega) (by omega) (by omega)
  intro h k hb hv
  refine ⟨Bnd.mono (by decide) hb, ?_⟩
  simp only [eval, mul_mod]
  unfold Field25519.mul
  rw [mod_p_of_add_mul hv, mul_columns, Nat.add_mul_mod_self_left]

/-! ## mul_small -/

theorem mul_small_spec (f : Fe) (s : Nat) (hf : Loose f) (hs : s < 2^32) :
    ∃ h, mul_small f s = some h ∧ Tight h ∧ eval h = Field25519.mul (eval f) s := by
  obtain ⟨f0, f1, f2, f3, f4⟩ := f
  simp only [Loose, Bnd] at hf
  obtain ⟨hf0, hf1, hf2, hf3, hf4⟩ := hf
  have p0 := Nat.mul_lt_mul'' hf0 hs
  have p1 := Nat.mul_lt_mul'' hf1 hs
  have p2 := Nat.mul_lt_mul'' hf2 hs
  have p3 := Nat.mul_lt_mul'' hf3 hs
  have p4 := Nat.mul_lt_mul'' hf4 hs
  simp only [mul_small, mul128, Nat.mod_eq_of_lt hs]
  apply carry128_elim (by omega) (by omega) (by omega) (by omega) (by omega)
  intro h k hb hv
  refine ⟨Bnd.mono (by decide) hb, ?_⟩
  simp only [eval]
  rw [← mul_mod, Nat.mod_mod, mul_mod]
  unfold Field25519.mul
  rw [mod_p_of_add_mul hv]
  congr 1
  simp only [val]; ring

end Cx.Proofs.Fe64
