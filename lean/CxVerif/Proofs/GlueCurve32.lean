/-
  Proofs.GlueCurve32 — helper lemmas for the translator tie of the curve layer on the 32-bit backend
  (Props/C17/GlueTieCurve32.lean): facts about the AUXILIARY definitions tools/ktx_glue_curve.py generates for the
  `force-32bits` configuration (specs tools/kernels/glue_curve32.py: join points `<f>_k<n>_src`, loop definitions
  `<f>_loop<n>_src`) and small `Option`-monad normalisation lemmas.  A port of Proofs/GlueCurve.lean (same inductions, the
  32-bit names); deliberately NOT importing it, so that the two ties stand and fall independently.
-/
import CxVerif.Extracted.GlueCurve32
namespace Cx.Proofs.GlueCurve32
open Cx Cx.Impl Cx.Impl.Fe32 Cx.Impl.Ge32 Cx.Extracted.GlueCurve32
open Cx.Impl.Ge (setSign bnegativeOf babsOf recodeLoop recode topIndex)

/-- `bind` distributes over `if` (used to normalise both sides into the same tree) -/
theorem ite_bind' {α β} (c : Prop) [Decidable c] (a b : Option α) (f : α → Option β) :
    (if c then a else b).bind f = if c then a.bind f else b.bind f := by split <;> rfl

/-! ### ge.rs -/

theorem bind_some_elim {α β} {o : Option α} {f : α → Option β} {b : β} (h : o >>= f = some b) : ∃ a, o = some a ∧ f a = some b := by
  cases o with
  | none => cases h
  | some a => exact ⟨a, rfl, h⟩

theorem some_bind' {α β} (a : α) (f : α → Option β) : (some a >>= f) = f a := rfl

/-- the join point of `GeAffine::from_bytes` (sign adjustment + `Some(Self { x, y })`) is the model's local `finish`
    (written as Lean elaborates the model's `do` block) -/
theorem GeAffine.from_bytes_k1 (s : Bytes) (h : s.length = 32) (y X : Fe) :
    GeAffine.from_bytes_k1_src s y X = (do
        let n ← is_negative X
        if (n != ((s[31]'(by omega)) >>> 7 != 0)) = true then do
            let x ← negate_mut X
            pure (some { x := x, y := y })
          else do
            let x ← pure X
            pure (some { x := x, y := y })) := by
  have h31 : s[31]? = some (s[31]'(by omega)) := List.getElem?_eq_getElem (by omega)
  unfold GeAffine.from_bytes_k1_src
  rw [h31]
  generalize is_negative X = o
  generalize negate_mut X = o2
  cases o with
  | none => rfl
  | some n =>
    simp only [Option.bind_eq_bind, Option.bind_some, Option.pure_def]
    generalize (n != (s[31] >>> 7 != 0)) = c
    cases c <;> cases o2 <;> rfl

/-- the generated `select` with its `debug_assert!` marker removed.  The step `simp only [Glue.debugAssert_iff]` FAILS when the
    generated text carries no marker (i.e. when the source says `assert!`, or nothing): `assert!` ↔ `debug_assert!` breaks the tie -/
theorem GePrecomp.select_src_unmarked (pos : Nat) (b : Int) :
    GePrecomp.select_src pos b =
      (if (b ≥ (-8 : Int)) ∧ (b ≤ (8 : Int)) then GePrecomp.select_src pos b else none) := by
  unfold GePrecomp.select_src
  simp only [Glue.debugAssert_iff]
  split <;> simp_all

/-- `(x >>= pure ∘ f) >>= g = x >>= g ∘ f` in one step.  (With the pair `Option.bind_assoc`, `Option.bind_some` — as in the 64-bit
    port — the kernel's re-check of the rewriting of `GePrecomp.select`'s eight `step`s does not come back on the 32-bit types: minutes inside
    a unary `Nat` evaluation (`whnf` ↔ `reduce_nat`, seen with gdb), then "deep recursion".  With this lemma every step stays syntactic.) -/
theorem bind_pure_bind {α β γ} (x : Option α) (f : α → β) (g : β → Option γ) :
    (x.bind fun a => some (f a)).bind g = x.bind fun a => g (f a) := by cases x <;> rfl

/-- `GePrecomp::select` on the seventeen digits the `debug_assert!` allows (the `i8`/`u8` bit tricks are evaluated) -/
theorem GePrecomp.select_in (pos : Nat) (b : Int) (h : -8 ≤ b ∧ b ≤ 8) : GePrecomp.select_src pos b = GePrecomp.select pos b := by
  have : b = -8 ∨ b = -7 ∨ b = -6 ∨ b = -5 ∨ b = -4 ∨ b = -3 ∨ b = -2 ∨ b = -1 ∨ b = 0 ∨ b = 1 ∨ b = 2 ∨ b = 3 ∨ b = 4
      ∨ b = 5 ∨ b = 6 ∨ b = 7 ∨ b = 8 := by omega
  rcases this with h | h | h | h | h | h | h | h | h | h | h | h | h | h | h | h | h <;> subst h <;>
    (unfold GePrecomp.select_src GePrecomp.select
     generalize GE_BASE[pos]? = orow
     simp only [Option.bind_eq_bind, Option.pure_def, bind_pure_bind]
     rfl)

/-! ### ge.rs: the loops of `scalarmult_base` and `double_scalarmult_vartime` -/

section geloops
open Cx.Impl.Scalar64 (ckI8)

theorem none_bind' {α β} (f : α → Option β) : (none >>= f) = none := rfl

/-- `scalar32::Scalar::nibbles` returns sixty-four digits -/
theorem Scalar.nibbles_length (s : Scalar32.Scalar) : (Scalar32.nibbles s).length = 64 := by
  unfold Scalar32.nibbles
  have : ∀ (l : List UInt8) (f g : UInt8 → Int), (l.flatMap fun a => [f a, g a]).length = 2 * l.length := by
    intro l f g
    induction l with
    | nil => rfl
    | cons x l ih => simp only [List.flatMap_cons, List.length_append, List.length_cons, List.length_nil, ih]; omega
  rw [this, Vector.length_toList]

theorem Ge.scalarmult_base_loop1 : ∀ (es : List Int) (c : Int), Ge.scalarmult_base_loop1_src es c = recodeLoop es c
  | [], _ => rfl
  | e :: es, c => by
    unfold Ge.scalarmult_base_loop1_src recodeLoop
    simp only [Ge.scalarmult_base_loop1 es]

theorem Ge.scalarmult_base_loop2 (es : List Int) : ∀ (n j : Nat) (h : Ge), Ge.scalarmult_base_loop2_src es n j h = combLoop es 1 n j h
  | 0, _, _ => rfl
  | n + 1, j, h => by
    unfold Ge.scalarmult_base_loop2_src combLoop
    simp only [Ge.scalarmult_base_loop2 es n]

theorem Ge.scalarmult_base_loop3 (es : List Int) : ∀ (n j : Nat) (h : Ge), Ge.scalarmult_base_loop3_src es n j h = combLoop es 0 n j h
  | 0, _, _ => rfl
  | n + 1, j, h => by
    unfold Ge.scalarmult_base_loop3_src combLoop
    simp only [Ge.scalarmult_base_loop3 es n, Nat.add_zero]

theorem recodeLoop_length : ∀ (es : List Int) (c : Int) (r : List Int) (c' : Int), recodeLoop es c = some (r, c') → r.length = es.length
  | [], _, r, c', h => by cases h; rfl
  | e :: es, c, r, c', h => by
    unfold recodeLoop at h
    obtain ⟨e1, _, h⟩ := bind_some_elim h
    obtain ⟨c1, _, h⟩ := bind_some_elim h
    obtain ⟨e2, _, h⟩ := bind_some_elim h
    obtain ⟨⟨rest, cl⟩, hr, h⟩ := bind_some_elim h
    cases h
    have := recodeLoop_length es _ rest _ hr
    simp only [List.length_cons, this]


theorem to_full_comm {β γ} (t : GeP1P1) (y : Option β) (f : Ge → β → Option γ) :
    (GeP1P1.to_full t >>= fun a => y >>= fun b => f a b) = (y >>= fun b => GeP1P1.to_full t >>= fun a => f a b) := by
  cases GeP1P1.to_full t <;> cases y <;> rfl

theorem ite_bind'' {α β} (c : Prop) [Decidable c] (a b : Option α) (f : α → Option β) :
    ((if c then a else b) >>= f) = if c then a >>= f else b >>= f := by split <;> rfl

theorem GePartial.dsm_loop1 (as bs : List Int) (ai : List GeCached) : ∀ (i : Nat) (r : GePartial),
    GePartial.double_scalarmult_vartime_loop1_src as bs ai (i + 1) r i = dsmLoop ai as bs (i + 1) r
  | 0, r => by
    unfold GePartial.double_scalarmult_vartime_loop1_src dsmLoop dsmStep
    simp only [to_full_comm, bind_assoc, dsmLoop, beq_self_eq_true, if_true, ite_bind'', pure_bind]
    rfl
  | j + 1, r => by
    have hne : (j + 1 == 0) = false := by simp
    unfold GePartial.double_scalarmult_vartime_loop1_src
    rw [dsmLoop]
    unfold dsmStep
    simp only [to_full_comm, bind_assoc, hne, Bool.false_eq_true, if_false, Nat.add_sub_cancel, GePartial.dsm_loop1 as bs ai j, ite_bind'', pure_bind]

theorem GePartial.dsm_loop2 (as bs : List Int) (ai : List GeCached) (r : GePartial) (hla : as.length = 256) (hlb : bs.length = 256) :
    ∀ (i : Nat), i < 256 →
      GePartial.double_scalarmult_vartime_loop2_src as bs ai r (i + 1) i
        = (match topIndex as bs (i + 1) with
           | none => pure r
           | some k => dsmLoop ai as bs (k + 1) r)
  | i, hi => by
    have ha : as[i]? = some (as[i]'(by omega)) := List.getElem?_eq_getElem (by omega)
    have hb : bs[i]? = some (bs[i]'(by omega)) := List.getElem?_eq_getElem (by omega)
    unfold GePartial.double_scalarmult_vartime_loop2_src topIndex GePartial.double_scalarmult_vartime_k1_src
    rw [ha, hb]
    simp only [some_bind', GePartial.dsm_loop1]
    generalize as[i] = a
    generalize bs[i] = b
    by_cases h1 : a = 0
    · by_cases h2 : b = 0
      · subst h1; subst h2
        cases i with
        | zero => rfl
        | succ j =>
          have hne : (j + 1 == 0) = false := by simp
          simp only [bne_self_eq_false, Bool.false_eq_true, if_false, Bool.or_self, hne, Nat.add_sub_cancel]
          exact GePartial.dsm_loop2 as bs ai r hla hlb j (by omega)
      · subst h1
        have : (b != 0) = true := by simp [h2]
        simp [this, h2]
    · have : (a != 0) = true := by simp [h1]
      simp [this, h1]


end geloops

/-! ### lengths of the encodings (unconditional: whenever the function returns at all) -/

theorem Fe.to_bytes_length (f : Fe) (b : Bytes) (h : Fe32.to_bytes f = some b) : b.length = 32 := by
  unfold Fe32.to_bytes at h
  obtain ⟨w, _, h⟩ := bind_some_elim h
  cases h
  rfl
theorem GeAffine.to_bytes_length (a : GeAffine) (b : Bytes) (h : GeAffine.to_bytes a = some b) : b.length = 32 := by
  unfold GeAffine.to_bytes at h
  obtain ⟨bs, hbs, h⟩ := bind_some_elim h
  obtain ⟨n, _, h⟩ := bind_some_elim h
  cases h
  simp only [setSign, List.length_modify]
  exact Fe.to_bytes_length _ _ hbs
theorem Ge.to_bytes_length (g : Ge) (b : Bytes) (h : Ge.to_bytes g = some b) : b.length = 32 := by
  unfold Ge.to_bytes at h
  obtain ⟨a, _, h⟩ := bind_some_elim h
  exact GeAffine.to_bytes_length a b h


/-! ### ed25519.rs -/

theorem modify_of_getElem? {α} [Inhabited α] (l : List α) (i : Nat) (f : α → α) (a : α) (h : l[i]? = some a) :
    l.modify i f = l.set i (f a) := by
  rw [List.modify_eq_set, h]; rfl


/-- the statements `signature` and `signature_extended` share after `public_key`, `az`, `nonce` are known, as the source has
    them (buffer `[0; 64]`, two `copy_from_slice`), are the model's `signature_tail` -/
theorem Ed25519_32.signature_tail_src (message public_key az : Bytes) (nonce : Scalar32.Scalar) :
    (do
      let r ← Ge.scalarmult_base nonce
      let signature := zeros 64
      let tmp6 ← Ge.to_bytes r
      let signature := tmp6 ++ signature.drop 32
      let signature := signature.take 32 ++ public_key
      let tmp7 ← Sha2.Ctx512.update (Sha2.Ctx512.new Sha2.Sha512) signature
      let tmp8 ← Sha2.Ctx512.update tmp7 message
      let hram ← Sha2.Ctx512.finalize Sha2.Sha512 tmp8
      let hram ← (Scalar32.reduceFromWideBytes hram).bind id
      let tmp11 ← Ed25519_32.extended_scalar az
      let r ← Scalar32.muladd hram tmp11 nonce
      let tmp13 := Scalar32.to_bytes r
      pure (signature.take 32 ++ tmp13)) = Ed25519_32.signature_tail message public_key az nonce := by
  unfold Ed25519_32.signature_tail
  refine bind_congr fun r => ?_
  cases hb : Ge.to_bytes r with
  | none => rfl
  | some rb =>
    have hl := Ge.to_bytes_length r rb hb
    have e1 : (rb ++ List.drop 32 (zeros 64)).take 32 = rb := by
      rw [List.take_append_of_le_length (by omega), List.take_of_length_le (by omega)]
    simp only [some_bind', e1, Ed25519.sha512_2, Ed25519_32.reduceWide, bind_assoc]


/-- the all-zero test loop of `verify` is the fold of the model -/
theorem Ed25519.verify_loop1 (l : Bytes) (d : UInt8) : Ed25519.verify_loop1_src l d = l.foldl (· ||| ·) d := by
  induction l generalizing d with
  | nil => rfl
  | cons x l ih => simp only [Ed25519.verify_loop1_src, List.foldl_cons, ih]

/-! ### curve25519/mod.rs: the Montgomery ladder -/

section ladder
open Cx.Impl.X25519 (bitChoice A24P1 A24P1_BASE NINE clampE)
open Cx.Impl.X25519_32 (Ladder ladderLoop ladderStep ladderStepCore ladderArith z5Of Z5 ladderMain)

/-- the loop-carried variables `(x2, z2, x3, z3, swap)` of the generated loop = the model's `Ladder` record -/
def Ladder.toTuple (s : Ladder) : Fe × Fe × Fe × Fe × CT.Choice := (s.x2, s.z2, s.x3, s.z3, s.swap)

theorem A24P1_eq : A24P1 = 121666 := by decide
theorem A24P1_BASE_eq : A24P1_BASE = 121666 := by decide
theorem NINE_eq : NINE = 9 := by decide

/-- `for pos in (0usize..255).rev()` of `curve25519` is the model's `ladderLoop` (every number of remaining iterations, every
    register contents) -/
theorem curve25519_loop1 (e : Bytes) (he : e.length = 32) (x1 : Fe) :
    ∀ (k : Nat) (hk : k ≤ 255) (x2 z2 x3 z3 : Fe) (sw : CT.Choice),
      curve25519_loop1_src e x1 k x2 z2 x3 z3 sw
        = (ladderLoop e he A24P1 (.mulX1 x1) k hk ⟨x2, z2, x3, z3, sw⟩).map Ladder.toTuple
  | 0, _, _, _, _, _, _ => rfl
  | k + 1, hk, x2, z2, x3, z3, sw => by
    have hi : e[k / 8]? = some (e[k / 8]'(by omega)) := List.getElem?_eq_getElem (by omega)
    unfold curve25519_loop1_src ladderLoop ladderStep ladderStepCore bitChoice
    rw [hi, some_bind']
    generalize CT.u8_ct_nonzero ((e[k / 8]'(by omega)) >>> UInt8.ofNat (k &&& 7) &&& 1) = b
    rcases h1 : maybe_swap_with x2 x3 (sw.xor b) with ⟨a2, a3⟩
    rcases h2 : maybe_swap_with z2 z3 (sw.xor b) with ⟨c2, c3⟩
    simp only [h1, h2, ladderArith, z5Of, A24P1_eq, Option.bind_eq_bind, Option.map_bind, Option.bind_assoc,
      Option.pure_def, Option.bind_some, Option.map_some, curve25519_loop1 e he x1 k (by omega), Function.comp_def]

/-- the same for the copy of the ladder in `curve25519_base` (`z5 = t2.mul_small::<9>()`) -/
theorem curve25519_base_loop1 (e : Bytes) (he : e.length = 32) :
    ∀ (k : Nat) (hk : k ≤ 255) (x2 z2 x3 z3 : Fe) (sw : CT.Choice),
      curve25519_base_loop1_src e k x2 z2 x3 z3 sw
        = (ladderLoop e he A24P1_BASE (.small NINE) k hk ⟨x2, z2, x3, z3, sw⟩).map Ladder.toTuple
  | 0, _, _, _, _, _, _ => rfl
  | k + 1, hk, x2, z2, x3, z3, sw => by
    have hi : e[k / 8]? = some (e[k / 8]'(by omega)) := List.getElem?_eq_getElem (by omega)
    unfold curve25519_base_loop1_src ladderLoop ladderStep ladderStepCore bitChoice
    rw [hi, some_bind']
    generalize CT.u8_ct_nonzero ((e[k / 8]'(by omega)) >>> UInt8.ofNat (k &&& 7) &&& 1) = b
    rcases h1 : maybe_swap_with x2 x3 (sw.xor b) with ⟨a2, a3⟩
    rcases h2 : maybe_swap_with z2 z3 (sw.xor b) with ⟨c2, c3⟩
    simp only [h1, h2, ladderArith, z5Of, A24P1_BASE_eq, NINE_eq, Option.bind_eq_bind, Option.map_bind, Option.bind_assoc,
      Option.pure_def, Option.bind_some, Option.map_some, curve25519_base_loop1 e he k (by omega), Function.comp_def]

end ladder

/-! ### scalar/mod.rs: `Scalar::slide` -/

section slide
open Cx.Impl.Scalar64 (ckI8 shlI8 slideCarry slideInner slideOuter)

theorem Vector.getElem?_toList256 (v : Vector Int 256) (k : Nat) (h : k < 256) : v.toList[k]? = some v[k] := by
  rw [Vector.getElem?_toList, Vector.getElem?_eq_getElem h]

theorem Scalar.slide_loop3 : ∀ (fuel k : Nat) (v : Vector Int 256), k + fuel ≤ 256 →
    Scalar.slide_loop3_src fuel k v.toList = some (slideCarry fuel k v).toList
  | 0, _, _, _ => rfl
  | fuel + 1, k, v, h => by
    have hk : k < 256 := by omega
    unfold Scalar.slide_loop3_src slideCarry
    rw [Vector.getElem?_toList256 v k hk, some_bind', dif_pos hk]
    by_cases h0 : (v[k] == 0) = true
    · rw [if_pos h0, if_pos h0, Vector.toList_set hk]; rfl
    · rw [if_neg h0, if_neg h0, ← Vector.toList_set hk]
      exact Scalar.slide_loop3 fuel (k + 1) _ (by omega)

theorem Scalar.slide_loop2 (i bound : Nat) (hi : i < 256) (hb256 : bound ≤ 256 - i) : ∀ (cnt b fuel : Nat) (v : Vector Int 256),
    b + cnt = bound → cnt ≤ fuel →
    Scalar.slide_loop2_src i cnt b v.toList = (slideInner i bound fuel b v).map Vector.toList
  | 0, b, fuel, v, hb, _ => by
    cases fuel with
    | zero => rfl
    | succ f =>
      unfold Scalar.slide_loop2_src slideInner
      rw [dif_neg (by omega)]; rfl
  | cnt + 1, b, fuel, v, hb, hf => by
    obtain ⟨f, rfl⟩ : ∃ f, fuel = f + 1 := ⟨fuel - 1, by omega⟩
    have hib : i + b < 256 := by omega
    have hcond : b < bound ∧ i + b < 256 := ⟨by omega, hib⟩
    unfold Scalar.slide_loop2_src slideInner
    rw [dif_pos hcond, Vector.getElem?_toList256 v (i + b) hib, some_bind']
    by_cases hnz : (v[i + b] != 0) = true
    · rw [if_pos hnz, if_pos hnz, Vector.getElem?_toList256 v i hi, some_bind']
      dsimp only
      generalize shlI8 v[i + b] b = sh
      cases h1 : ckI8 (v[i] + sh) with
      | none => rfl
      | some s =>
        rw [some_bind']
        by_cases hs : s ≤ 15
        · rw [if_pos hs]
          dsimp only
          rw [if_pos hs, some_bind']
          have hlen : i + b < (v.toList.set i s).length := by simp only [List.length_set, Vector.length_toList]; exact hib
          rw [if_pos hlen, ← Vector.toList_set hi, ← Vector.toList_set hib]
          exact Scalar.slide_loop2 i bound hi hb256 cnt (b + 1) f _ (by omega) (by omega)
        · rw [if_neg hs]
          dsimp only
          rw [if_neg hs]
          cases h2 : ckI8 (v[i] - sh) with
          | none => rfl
          | some d =>
            rw [some_bind']
            dsimp only
            by_cases hd : d ≥ -15
            · rw [if_pos hd, if_pos hd, some_bind', ← Vector.toList_set hi, Scalar.slide_loop3 _ _ _ (by omega), some_bind']
              exact Scalar.slide_loop2 i bound hi hb256 cnt (b + 1) f _ (by omega) (by omega)
            · rw [if_neg hd, if_neg hd]; rfl
    · rw [if_neg hnz, if_neg hnz]
      exact Scalar.slide_loop2 i bound hi hb256 cnt (b + 1) f _ (by omega) (by omega)
theorem Scalar.slide_loop1 : ∀ (fuel i : Nat) (v : Vector Int 256), i + fuel ≤ 256 →
    Scalar.slide_loop1_src fuel i v.toList = (slideOuter fuel i v).map Vector.toList
  | 0, _, _, _ => rfl
  | fuel + 1, i, v, h => by
    have hi : i < 256 := by omega
    unfold Scalar.slide_loop1_src slideOuter
    rw [dif_pos hi, Vector.getElem?_toList256 v i hi, some_bind']
    by_cases hnz : (v[i] != 0) = true
    · rw [if_pos hnz, if_pos hnz]
      have hm : 1 + (min 7 (256 - i) - 1) = min 7 (256 - i) := by omega
      rw [Scalar.slide_loop2 i (min 7 (256 - i)) hi (by omega) (min 7 (256 - i) - 1) 1 7 v hm (by omega)]
      cases slideInner i (min 7 (256 - i)) 7 1 v with
      | none => rfl
      | some r' =>
        rw [Option.map_some, some_bind']
        exact Scalar.slide_loop1 fuel (i + 1) r' (by omega)
    · rw [if_neg hnz, if_neg hnz]
      exact Scalar.slide_loop1 fuel (i + 1) v (by omega)


end slide

end Cx.Proofs.GlueCurve32
