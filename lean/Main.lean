/-
  cxdrv — the Lean side of the line protocol.  `cxdrv impl` answers with the code-shaped models,
  `cxdrv spec` with the specifications.  One case per stdin line, one answer per stdout line.
-/
import Std.Data.HashMap
import CxVerif.Driver.Registry
open Cx

def buildTable (mode : String) : Std.HashMap String Handler :=
  Cx.Driver.allOps.foldl (fun m e => m.insert e.name (if mode == "spec" then e.spec else e.impl)) {}

def answer (tbl : Std.HashMap String Handler) (line : String) : String :=
  match line.trimAscii.toString.splitOn " " with
  | [] => "bad-op"
  | op :: args =>
    match tbl[op]? with
    | none => "bad-op"
    | some h => match h args with
      | some r => r
      | none => "bad-args"

partial def loop (tbl : Std.HashMap String Handler) (hin hout : IO.FS.Stream) : IO Unit := do
  let line ← hin.getLine
  if line.isEmpty then return ()
  hout.putStrLn (answer tbl line)
  loop tbl hin hout

def main (args : List String) : IO Unit := do
  let mode := args.headD "impl"
  let tbl := buildTable mode
  let hin ← IO.getStdin
  let hout ← IO.getStdout
  loop tbl hin hout
  hout.flush
