-- Root of the `CxVerif` library: every module that `lake build` must check.
import CxVerif.Util.Bytes
import CxVerif.Util.Proto
import CxVerif.Impl.ConstantTime
import CxVerif.Proofs.ConstantTime
import CxVerif.Props.C18
import CxVerif.Driver.Registry
